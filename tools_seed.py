#!/usr/bin/env python3
"""tools_seed.py <Cxx> <A|B> [checks...]
Confirms an independently produced property-breaking change (sub-agent output under /tmp/wt/<Cxx>/_seed/<A|B>) in its scratch
worktree (demo passes without it, the repository's suite still passes with it, demo fails with it), then applies it to /repo,
runs the given checks (default: the property's own check, quick tier), reverts /repo, and files the change under
/verif/seeded/<Cxx>-<A|B>/ (patch.diff, demo_test.go, notes.txt, meta.json). Nothing is ever committed in /repo."""
import json, os, shutil, subprocess, sys, time

ENV = dict(os.environ, GOFLAGS="-mod=mod", GOPROXY="off", GOSUMDB="off", GOTOOLCHAIN="local", GOCACHE="/verif/.build/gocache")

def sh(cmd, cwd=None, timeout=3600):
    r = subprocess.run(cmd, shell=True, cwd=cwd, env=ENV, capture_output=True, text=True, errors="replace", timeout=timeout)
    return r.returncode, (r.stdout + r.stderr)

def main():
    pid, which = sys.argv[1], sys.argv[2]
    wt = os.environ.get("SEED_WT_ROOT", "/tmp/wt") + f"/{pid}"
    pid = os.environ.get("SEED_PROPERTY", pid)  # the worktree may have been shared by two properties
    checks = sys.argv[3:] or [pid]
    seed = f"{wt}/_seed/{which}"
    patch = f"{seed}/patch.diff"
    demo = f"{seed}/demo_test.go"
    suffix = os.environ.get("SEED_SUFFIX", "")
    meta = {"id": f"{pid}-{which}{suffix}", "breaks_property": pid, "origin": "independent sub-agent given only the property text and a scratch worktree", "confirmed": {}}
    for f in (patch, demo):
        if not os.path.exists(f):
            print("missing", f); return 2
    sh("git checkout -- . && rm -f seed_demo_test.go", wt)
    shutil.copy(demo, f"{wt}/seed_demo_test.go")
    rc, out = sh("go test -vet=off -count=1 -run 'TestSeedDemo$' . 2>&1 | tail -5", wt)
    ok_without = "ok " in out and "FAIL" not in out
    meta["confirmed"]["demo_passes_without_change"] = ok_without
    rc, out = sh(f"git apply --exclude='_seed/*' {patch}", wt)
    if rc != 0:
        print("patch does not apply:", out[:400]); sh("git checkout -- . && rm -f seed_demo_test.go", wt); return 2
    rc, out = sh("go build ./... 2>&1 | tail -5", wt)
    meta["confirmed"]["compiles"] = rc == 0 and out.strip() == ""
    rc, out = sh("timeout 300 go test -vet=off -count=1 -run 'TestSeedDemo$' . 2>&1 | tail -8", wt)
    fails_with = "FAIL" in out or "panic" in out
    meta["confirmed"]["demo_fails_with_change"] = fails_with
    meta["demo_failure_excerpt"] = out[-600:]
    if not fails_with:
        rc, out = sh("timeout 600 go test -race -vet=off -count=3 -run 'TestSeedDemo$' . 2>&1 | tail -8", wt)
        meta["confirmed"]["demo_fails_with_change_under_race"] = "FAIL" in out or "DATA RACE" in out
        fails_with = meta["confirmed"]["demo_fails_with_change_under_race"]
    os.remove(f"{wt}/seed_demo_test.go")
    rc, out = sh(f"/verif/tools_repotest.sh {wt}")
    meta["confirmed"]["repository_suite_passes_with_change"] = rc == 0
    meta["repository_suite"] = out.strip()[-300:]
    sh("git checkout -- .", wt)
    valid = ok_without and fails_with and meta["confirmed"]["compiles"] and meta["confirmed"]["repository_suite_passes_with_change"]
    meta["valid_seed"] = valid
    # run my checks against it
    rc, out = sh("git -C /repo diff --quiet")
    if rc != 0:
        print("/repo has uncommitted changes; refusing"); return 2
    rc, out = sh(f"git -C /repo apply --exclude='_seed/*' {patch}")
    results = {}
    if rc != 0:
        results["apply"] = "patch does not apply to /repo: " + out[:300]
    else:
        try:
            for c in checks:
                t0 = time.time()
                rc, out = sh(f"./run.sh {c} quick", "/verif", timeout=3600)
                viol = [l for l in out.splitlines() if l.startswith("VIOLATION")]
                keys = [l.strip()[5:].strip() for l in out.splitlines() if l.strip().startswith("key:")]
                results[c] = {"exit": rc, "violations": len(viol), "first_keys": keys[:5], "summary": out.strip().splitlines()[-1][:300] if out.strip() else "", "wall_s": round(time.time() - t0, 1)}
        finally:
            sh("git -C /repo checkout -- .")
    meta["checks_run_quick"] = results
    meta["detected_by"] = [c for c, r in results.items() if isinstance(r, dict) and r.get("exit") == 1 and r.get("violations", 0) > 0]
    notes = open(f"{seed}/notes.txt").read() if os.path.exists(f"{seed}/notes.txt") else ""
    meta["needs_to_manifest"] = notes.strip()[:1200]
    meta["what_was_run"] = [f"go test -run TestSeedDemo (without / with patch) in {wt}", f"tools_repotest.sh {wt} with patch", "git -C /repo apply; ./run.sh <check> quick; git -C /repo checkout -- ."]
    dst = f"/verif/seeded/{pid}-{which}{suffix}"
    os.makedirs(dst, exist_ok=True)
    if os.path.exists(f"{dst}/meta.json"):
        prev = json.load(open(f"{dst}/meta.json"))
        if "first_contact" in prev:
            meta["first_contact"] = prev["first_contact"]  # what the checks said before they had seen this change
    shutil.copy(patch, f"{dst}/patch.diff")
    shutil.copy(demo, f"{dst}/demo_test.go")
    if notes:
        open(f"{dst}/notes.txt", "w").write(notes)
    json.dump(meta, open(f"{dst}/meta.json", "w"), indent=1)
    print(json.dumps({k: meta[k] for k in ("id", "valid_seed", "confirmed", "detected_by")}, indent=None))
    for c, r in results.items():
        print(" ", c, r if not isinstance(r, dict) else {k: r[k] for k in ("exit", "violations", "first_keys", "wall_s")})
    return 0

if __name__ == "__main__":
    sys.exit(main())
