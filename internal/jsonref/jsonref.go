// Package jsonref is the independent JSON reader used as an oracle: it is built on encoding/json's
// token stream (never on fastjson, which the library itself uses), keeps duplicate member names and
// reports anything that is not exactly one valid JSON value.
package jsonref

import (
	"bytes"
	"encoding/json"
	"fmt"
	"io"
)

// Node is a parsed JSON value that keeps member order and duplicates.
type Node struct {
	Kind    string // object | array | string | number | bool | null
	Names   []string
	Members []*Node
	Elems   []*Node
	Str     string // decoded string / number literal / "true" / "false"
}

// Parse reads exactly one JSON value; trailing non-space bytes are an error.
func Parse(b []byte) (*Node, error) {
	if !json.Valid(b) {
		// json.Valid is the strict RFC 8259 validator of the standard library
		return nil, fmt.Errorf("not a valid JSON text")
	}
	dec := json.NewDecoder(bytes.NewReader(b))
	dec.UseNumber()
	n, err := parse(dec)
	if err != nil {
		return nil, err
	}
	if _, err := dec.Token(); err != io.EOF {
		return nil, fmt.Errorf("trailing data after the JSON value")
	}
	return n, nil
}

func parse(dec *json.Decoder) (*Node, error) {
	tok, err := dec.Token()
	if err != nil {
		return nil, err
	}
	switch t := tok.(type) {
	case json.Delim:
		switch t {
		case '{':
			n := &Node{Kind: "object"}
			for dec.More() {
				kt, err := dec.Token()
				if err != nil {
					return nil, err
				}
				k, ok := kt.(string)
				if !ok {
					return nil, fmt.Errorf("object key is not a string")
				}
				v, err := parse(dec)
				if err != nil {
					return nil, err
				}
				n.Names = append(n.Names, k)
				n.Members = append(n.Members, v)
			}
			if _, err := dec.Token(); err != nil {
				return nil, err
			}
			return n, nil
		case '[':
			n := &Node{Kind: "array"}
			for dec.More() {
				v, err := parse(dec)
				if err != nil {
					return nil, err
				}
				n.Elems = append(n.Elems, v)
			}
			if _, err := dec.Token(); err != nil {
				return nil, err
			}
			return n, nil
		}
		return nil, fmt.Errorf("unexpected delimiter %v", t)
	case string:
		return &Node{Kind: "string", Str: t}, nil
	case json.Number:
		return &Node{Kind: "number", Str: string(t)}, nil
	case bool:
		return &Node{Kind: "bool", Str: fmt.Sprint(t)}, nil
	case nil:
		return &Node{Kind: "null"}, nil
	}
	return nil, fmt.Errorf("unexpected token %T", tok)
}

// Get returns the first member with the given name.
func (n *Node) Get(name string) *Node {
	if n == nil {
		return nil
	}
	for i, k := range n.Names {
		if k == name {
			return n.Members[i]
		}
	}
	return nil
}

// Duplicates returns member names that occur more than once in this object.
func (n *Node) Duplicates() []string {
	seen := map[string]int{}
	var out []string
	for _, k := range n.Names {
		seen[k]++
		if seen[k] == 2 {
			out = append(out, k)
		}
	}
	return out
}
