// Package jsonref is the independent JSON reader used as an oracle: it is built on encoding/json's
// token stream (never on fastjson, which the library itself uses), keeps duplicate member names and
// reports anything that is not exactly one valid JSON value.
package jsonref

import (
	"bytes"
	"encoding/json"
	"fmt"
	"io"
)

// Node is a parsed JSON value that keeps member order and duplicates.
type Node struct {
	Kind    string // object | array | string | number | bool | null
	Names   []string
	Members []*Node
	Elems   []*Node
	Str     string // decoded string / number literal / "true" / "false"
}

// Parse reads exactly one JSON value; trailing non-space bytes are an error.
func Parse(b []byte) (*Node, error) {
	if !json.Valid(b) {
		// json.Valid is the strict RFC 8259 validator of the standard library
		return nil, fmt.Errorf("not a valid JSON text")
	}
	dec := json.NewDecoder(bytes.NewReader(b))
	dec.UseNumber()
	n, err := parse(dec)
	if err != nil {
		return nil, err
	}
	if _, err := dec.Token(); err != io.EOF {
		return nil, fmt.Errorf("trailing data after the JSON value")
	}
	return n, nil
}

func parse(dec *json.Decoder) (*Node, error) {
	tok, err := dec.Token()
	if err != nil {
		return nil, err
	}
	switch t := tok.(type) {
	case json.Delim:
		switch t {
		case '{':
			n := &Node{Kind: "object"}
			for dec.More() {
				kt, err := dec.Token()
				if err != nil {
					return nil, err
				}
				k, ok := kt.(string)
				if !ok {
					return nil, fmt.Errorf("object key is not a string")
				}
				v, err := parse(dec)
				if err != nil {
					return nil, err
				}
				n.Names = append(n.Names, k)
				n.Members = append(n.Members, v)
			}
			if _, err := dec.Token(); err != nil {
				return nil, err
			}
			return n, nil
		case '[':
			n := &Node{Kind: "array"}
			for dec.More() {
				v, err := parse(dec)
				if err != nil {
					return nil, err
				}
				n.Elems = append(n.Elems, v)
			}
			if _, err := dec.Token(); err != nil {
				return nil, err
			}
			return n, nil
		}
		return nil, fmt.Errorf("unexpected delimiter %v", t)
	case string:
		return &Node{Kind: "string", Str: t}, nil
	case json.Number:
		return &Node{Kind: "number", Str: string(t)}, nil
	case bool:
		return &Node{Kind: "bool", Str: fmt.Sprint(t)}, nil
	case nil:
		return &Node{Kind: "null"}, nil
	}
	return nil, fmt.Errorf("unexpected token %T", tok)
}

// Get returns the first member with the given name.
func (n *Node) Get(name string) *Node {
	if n == nil {
		return nil
	}
	for i, k := range n.Names {
		if k == name {
			return n.Members[i]
		}
	}
	return nil
}

// Duplicates returns member names that occur more than once in this object.
func (n *Node) Duplicates() []string {
	seen := map[string]int{}
	var out []string
	for _, k := range n.Names {
		seen[k]++
		if seen[k] == 2 {
			out = append(out, k)
		}
	}
	return out
}

// RenderOpts selects a legal presentation of a JSON text (RFC 8259 leaves all of these to the writer).
type RenderOpts struct {
	Indent       bool                  // insignificant white space everywhere, a leading line feed and trailing spaces
	EscapeAll    bool                  // every character of every string and member name written as \uXXXX (surrogate pairs above U+FFFF)
	ReverseOrder bool                  // members of every object in reverse order
	NullMembers  []string              // names added to the top-level object with the value null
	Context      bool                  // "@context" added as first member of the top-level object
	MapString    func(s string) string // optional rewrite of string values (e.g. another spelling of the same instant)
}

// Render writes n in the presentation selected by o.
func Render(n *Node, o RenderOpts) []byte {
	var b bytes.Buffer
	if o.Indent {
		b.WriteString("\n ")
	}
	render(&b, n, o, 0, true)
	if o.Indent {
		b.WriteString(" \n\t ")
	}
	return b.Bytes()
}

func renderString(b *bytes.Buffer, s string, o RenderOpts) {
	if !o.EscapeAll {
		q, _ := json.Marshal(s)
		b.Write(q)
		return
	}
	b.WriteByte('"')
	for _, r := range s {
		if r > 0xffff {
			r -= 0x10000
			fmt.Fprintf(b, `\u%04x\u%04X`, 0xd800+(r>>10), 0xdc00+(r&0x3ff))
			continue
		}
		fmt.Fprintf(b, `\u%04x`, r)
	}
	b.WriteByte('"')
}

func render(b *bytes.Buffer, n *Node, o RenderOpts, depth int, top bool) {
	sp := func() {
		if o.Indent {
			b.WriteString("\r\n" + string(bytes.Repeat([]byte("\t "), depth+1)))
		}
	}
	switch n.Kind {
	case "object":
		b.WriteByte('{')
		first := true
		member := func(name string, v *Node, raw string) {
			if !first {
				b.WriteByte(',')
			}
			first = false
			sp()
			renderString(b, name, o)
			if o.Indent {
				b.WriteString(" : ")
			} else {
				b.WriteByte(':')
			}
			if v == nil {
				b.WriteString(raw)
			} else {
				render(b, v, o, depth+1, false)
			}
		}
		if top && o.Context {
			member("@context", nil, `["https://www.w3.org/ns/activitystreams",{"@language":"en"}]`)
		}
		idx := make([]int, len(n.Names))
		for i := range idx {
			idx[i] = i
			if o.ReverseOrder {
				idx[i] = len(n.Names) - 1 - i
			}
		}
		for _, i := range idx {
			member(n.Names[i], n.Members[i], "")
		}
		if top {
			for _, name := range o.NullMembers {
				member(name, nil, "null")
			}
		}
		if o.Indent && !first {
			b.WriteString("\n")
		}
		b.WriteByte('}')
	case "array":
		b.WriteByte('[')
		for i, e := range n.Elems {
			if i > 0 {
				b.WriteByte(',')
			}
			sp()
			render(b, e, o, depth+1, false)
		}
		b.WriteByte(']')
	case "string":
		s := n.Str
		if o.MapString != nil {
			s = o.MapString(s)
		}
		renderString(b, s, o)
	case "number":
		b.WriteString(n.Str)
	case "bool":
		b.WriteString(n.Str)
	default:
		b.WriteString("null")
	}
}
