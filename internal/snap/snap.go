// Package snap takes deep snapshots of Go values for the non-interference clause of C12: every field, every slice up to its
// CAPACITY (an append into spare capacity is a write), the identity of every pointer, interface dynamic types, unexported
// fields included. Two snapshots are equal iff no byte reachable from the value changed and no reference was redirected.
package snap

import (
	"fmt"
	"hash/fnv"
	"math"
	"reflect"
	"sort"
)

// Snapshot is a list of (path, representation) lines plus a hash of them.
type Snapshot struct {
	Hash  uint64
	Lines []string
}

type walker struct {
	seen    map[uintptr]bool
	lines   []string
	verbose bool
	h       interface{ Write([]byte) (int, error) }
	sum     func() uint64
	budget  int
}

// Take snapshots the values (verbose keeps the lines for Diff; the non-verbose form only hashes and is much faster).
func Take(verbose bool, vs ...any) Snapshot {
	if !verbose {
		f := &fast{seen: map[uintptr]struct{}{}, h: 14695981039346656037, budget: 2_000_000}
		for _, v := range vs {
			f.walk(reflect.ValueOf(v))
			f.word(0xfeedface)
		}
		return Snapshot{Hash: f.h}
	}
	h := fnv.New64a()
	w := &walker{seen: map[uintptr]bool{}, verbose: verbose, h: h, sum: h.Sum64, budget: 2_000_000}
	for i, v := range vs {
		w.walk(fmt.Sprintf("$%d", i), reflect.ValueOf(v))
	}
	return Snapshot{Hash: h.Sum64(), Lines: w.lines}
}

// fast is the hashing-only walker: same traversal as walker, no strings.
type fast struct {
	seen   map[uintptr]struct{}
	h      uint64
	budget int
}

func (f *fast) word(x uint64) {
	for i := 0; i < 8; i++ {
		f.h ^= x & 0xff
		f.h *= 1099511628211
		x >>= 8
	}
}

func (f *fast) bytes(b []byte) {
	for _, c := range b {
		f.h ^= uint64(c)
		f.h *= 1099511628211
	}
	f.word(uint64(len(b)))
}

func (f *fast) walk(v reflect.Value) {
	if f.budget--; f.budget < 0 {
		return
	}
	if !v.IsValid() {
		f.word(0xdead)
		return
	}
	f.word(uint64(v.Kind()))
	switch v.Kind() {
	case reflect.Pointer:
		if v.IsNil() {
			f.word(0)
			return
		}
		p := v.Pointer()
		f.word(uint64(p))
		if _, ok := f.seen[p]; !ok {
			f.seen[p] = struct{}{}
			f.walk(v.Elem())
		}
	case reflect.Interface:
		if v.IsNil() {
			f.word(0)
			return
		}
		f.bytes([]byte(v.Elem().Type().String()))
		f.walk(v.Elem())
	case reflect.Slice:
		if v.IsNil() {
			f.word(0)
			return
		}
		f.word(uint64(v.Pointer()))
		f.word(uint64(v.Len()))
		f.word(uint64(v.Cap()))
		full := v.Slice(0, v.Cap())
		if v.Type().Elem().Kind() == reflect.Uint8 {
			f.bytes(full.Bytes())
			return
		}
		for i := 0; i < full.Len(); i++ {
			f.walk(full.Index(i))
		}
	case reflect.Array:
		for i := 0; i < v.Len(); i++ {
			f.walk(v.Index(i))
		}
	case reflect.String:
		f.bytes([]byte(v.String()))
	case reflect.Struct:
		for i := 0; i < v.NumField(); i++ {
			f.walk(v.Field(i))
		}
	case reflect.Map:
		if v.IsNil() {
			f.word(0)
			return
		}
		f.word(uint64(v.Pointer()))
		f.word(uint64(v.Len()))
		keys := v.MapKeys()
		sort.Slice(keys, func(i, j int) bool { return fmt.Sprint(keys[i]) < fmt.Sprint(keys[j]) })
		for _, k := range keys {
			f.walk(k)
			f.walk(v.MapIndex(k))
		}
	case reflect.Func, reflect.Chan, reflect.UnsafePointer:
		if v.IsNil() {
			f.word(0)
			return
		}
		f.word(uint64(v.Pointer()))
	case reflect.Bool:
		if v.Bool() {
			f.word(1)
		} else {
			f.word(2)
		}
	case reflect.Int, reflect.Int8, reflect.Int16, reflect.Int32, reflect.Int64:
		f.word(uint64(v.Int()))
	case reflect.Uint, reflect.Uint8, reflect.Uint16, reflect.Uint32, reflect.Uint64, reflect.Uintptr:
		f.word(v.Uint())
	case reflect.Float32, reflect.Float64:
		f.word(math.Float64bits(v.Float()))
	default:
		f.word(0xbeef)
	}
}

func (w *walker) emit(path, repr string) {
	w.h.Write([]byte(path))
	w.h.Write([]byte{0})
	w.h.Write([]byte(repr))
	w.h.Write([]byte{1})
	if w.verbose {
		w.lines = append(w.lines, path+" = "+repr)
	}
}

func (w *walker) walk(path string, v reflect.Value) {
	if w.budget--; w.budget < 0 {
		return
	}
	if !v.IsValid() {
		w.emit(path, "<invalid>")
		return
	}
	switch v.Kind() {
	case reflect.Pointer:
		if v.IsNil() {
			w.emit(path, "nil "+v.Type().String())
			return
		}
		p := v.Pointer()
		w.emit(path, fmt.Sprintf("%s@%#x", v.Type(), p))
		if !w.seen[p] {
			w.seen[p] = true
			w.walk(path+".*", v.Elem())
		}
	case reflect.Interface:
		if v.IsNil() {
			w.emit(path, "nil interface")
			return
		}
		w.emit(path, "iface:"+v.Elem().Type().String())
		w.walk(path, v.Elem())
	case reflect.Slice:
		if v.IsNil() {
			w.emit(path, "nil slice "+v.Type().String())
			return
		}
		w.emit(path, fmt.Sprintf("slice@%#x len=%d cap=%d", v.Pointer(), v.Len(), v.Cap()))
		full := v.Slice(0, v.Cap())
		if v.Type().Elem().Kind() == reflect.Uint8 {
			w.emit(path+"[:cap]", fmt.Sprintf("%x", full.Bytes()))
			return
		}
		for i := 0; i < full.Len(); i++ {
			w.walk(fmt.Sprintf("%s[%d]", path, i), full.Index(i))
		}
	case reflect.Array:
		for i := 0; i < v.Len(); i++ {
			w.walk(fmt.Sprintf("%s[%d]", path, i), v.Index(i))
		}
	case reflect.String:
		w.emit(path, fmt.Sprintf("%q", v.String()))
	case reflect.Struct:
		t := v.Type()
		for i := 0; i < t.NumField(); i++ {
			w.walk(path+"."+t.Field(i).Name, v.Field(i))
		}
	case reflect.Map:
		if v.IsNil() {
			w.emit(path, "nil map")
			return
		}
		w.emit(path, fmt.Sprintf("map@%#x len=%d", v.Pointer(), v.Len()))
		keys := v.MapKeys()
		sort.Slice(keys, func(i, j int) bool { return fmt.Sprint(keys[i]) < fmt.Sprint(keys[j]) })
		for _, k := range keys {
			w.walk(fmt.Sprintf("%s[%v]", path, k), v.MapIndex(k))
		}
	case reflect.Func, reflect.Chan, reflect.UnsafePointer:
		if v.IsNil() {
			w.emit(path, "nil "+v.Kind().String())
			return
		}
		w.emit(path, fmt.Sprintf("%s@%#x", v.Kind(), v.Pointer()))
	case reflect.Bool:
		w.emit(path, fmt.Sprint(v.Bool()))
	case reflect.Int, reflect.Int8, reflect.Int16, reflect.Int32, reflect.Int64:
		w.emit(path, fmt.Sprint(v.Int()))
	case reflect.Uint, reflect.Uint8, reflect.Uint16, reflect.Uint32, reflect.Uint64, reflect.Uintptr:
		w.emit(path, fmt.Sprint(v.Uint()))
	case reflect.Float32, reflect.Float64:
		w.emit(path, fmt.Sprint(v.Float()))
	case reflect.Complex64, reflect.Complex128:
		w.emit(path, fmt.Sprint(v.Complex()))
	default:
		w.emit(path, "<"+v.Kind().String()+">")
	}
}

// Diff returns the first lines that differ between two verbose snapshots.
func Diff(a, b Snapshot) []string {
	var out []string
	n := len(a.Lines)
	if len(b.Lines) > n {
		n = len(b.Lines)
	}
	for i := 0; i < n && len(out) < 6; i++ {
		var x, y string
		if i < len(a.Lines) {
			x = a.Lines[i]
		}
		if i < len(b.Lines) {
			y = b.Lines[i]
		}
		if x != y {
			out = append(out, fmt.Sprintf("before: %s | after: %s", x, y))
		}
	}
	return out
}
