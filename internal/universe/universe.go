// Package universe derives the finite value universe of the vocabulary from the live struct
// types by reflection (fields, declared terms, kinds) and enumerates values by a deviation
// bound on the number of populated properties and by nesting depth (DESIGN.md §1.2).
package universe

import (
	"fmt"
	"reflect"
	"sort"
	"strings"
	"time"
	"unicode/utf8"

	ap "github.com/go-ap/activitypub"
)

type Kind int

const (
	KItem Kind = iota
	KItems
	KNLV
	KTime
	KDuration
	KFloat
	KInt
	KUint
	KBool
	KIRI
	KMime
	KLangRef
	KVocabType
	KString
	KSource
	KPublicKey
	KEndpoints
	KUnknown
)

var kindNames = map[Kind]string{KItem: "item", KItems: "items", KNLV: "nlv", KTime: "time", KDuration: "duration", KFloat: "float",
	KInt: "int", KUint: "uint", KBool: "bool", KIRI: "iri", KMime: "mime", KLangRef: "langref", KVocabType: "vtype", KString: "string",
	KSource: "source", KPublicKey: "publickey", KEndpoints: "endpoints", KUnknown: "unknown"}

func (k Kind) String() string { return kindNames[k] }

// Field is one exported field of a vocabulary struct.
type Field struct {
	Index int
	Name  string
	Term  string // declared jsonld term
	Kind  Kind
	Type  reflect.Type
}

// Struct is one vocabulary struct type.
type Struct struct {
	Name      string
	Type      reflect.Type
	Fields    []Field
	TypeNames []string // generic name first, then specific names of its family
	Family    string
}

var (
	tItem      = reflect.TypeOf((*ap.Item)(nil)).Elem()
	tItems     = reflect.TypeOf(ap.ItemCollection{})
	tNLV       = reflect.TypeOf(ap.NaturalLanguageValues{})
	tTime      = reflect.TypeOf(time.Time{})
	tDuration  = reflect.TypeOf(time.Duration(0))
	tIRI       = reflect.TypeOf(ap.IRI(""))
	tMime      = reflect.TypeOf(ap.MimeType(""))
	tLangRef   = reflect.TypeOf(ap.LangRef(""))
	tVType     = reflect.TypeOf(ap.ActivityVocabularyType(""))
	tSource    = reflect.TypeOf(ap.Source{})
	tPublicKey = reflect.TypeOf(ap.PublicKey{})
	tEndpoints = reflect.TypeOf((*ap.Endpoints)(nil))
)

func kindOf(t reflect.Type) Kind {
	switch {
	case t == tItems:
		return KItems
	case t == tNLV:
		return KNLV
	case t == tTime:
		return KTime
	case t == tDuration:
		return KDuration
	case t == tIRI:
		return KIRI
	case t == tMime:
		return KMime
	case t == tLangRef:
		return KLangRef
	case t == tVType:
		return KVocabType
	case t == tSource:
		return KSource
	case t == tPublicKey:
		return KPublicKey
	case t == tEndpoints:
		return KEndpoints
	case t.Kind() == reflect.Interface && t.Implements(tItem) && tItem.Implements(t):
		return KItem
	case t.Kind() == reflect.Interface && t.NumMethod() > 0 && tItem.Implements(t):
		return KItem
	case t.Kind() == reflect.Float64:
		return KFloat
	case t.Kind() == reflect.Int64:
		return KInt
	case t.Kind() == reflect.Uint:
		return KUint
	case t.Kind() == reflect.Bool:
		return KBool
	case t.Kind() == reflect.String:
		return KString
	}
	return KUnknown
}

// Term extracts the declared term of a struct field ("" if none).
func Term(f reflect.StructField) string {
	tag, ok := f.Tag.Lookup("jsonld")
	if !ok {
		return ""
	}
	return strings.Split(tag, ",")[0]
}

func describe(v any, family string, names ...string) Struct {
	t := reflect.TypeOf(v)
	s := Struct{Name: t.Name(), Type: t, TypeNames: names, Family: family}
	for i := 0; i < t.NumField(); i++ {
		f := t.Field(i)
		if !f.IsExported() {
			continue
		}
		term := Term(f)
		if term == "" {
			term = f.Name
		}
		s.Fields = append(s.Fields, Field{Index: i, Name: f.Name, Term: term, Kind: kindOf(f.Type), Type: f.Type})
	}
	return s
}

// Structs are the 14 vocabulary struct types.
var Structs = []Struct{
	describe(ap.Object{}, "object", "Object", "Note", "Article"),
	describe(ap.Actor{}, "actor", "Actor", "Person", "Service"),
	describe(ap.Activity{}, "activity", "Activity", "Like", "Create"),
	describe(ap.IntransitiveActivity{}, "intransitive", "IntransitiveActivity", "Arrive", "Travel"),
	describe(ap.Question{}, "question", "Question"),
	describe(ap.Collection{}, "collection", "Collection"),
	describe(ap.CollectionPage{}, "collection", "CollectionPage"),
	describe(ap.OrderedCollection{}, "collection", "OrderedCollection"),
	describe(ap.OrderedCollectionPage{}, "collection", "OrderedCollectionPage"),
	describe(ap.Place{}, "object", "Place"),
	describe(ap.Profile{}, "object", "Profile"),
	describe(ap.Relationship{}, "object", "Relationship"),
	describe(ap.Tombstone{}, "object", "Tombstone"),
	describe(ap.Link{}, "link", "Link", "Mention"),
}

// Nested are the non-item nested struct types.
var Nested = []Struct{
	describe(ap.Source{}, "nested"),
	describe(ap.PublicKey{}, "nested"),
	describe(ap.Endpoints{}, "nested"),
}

func ByName(n string) *Struct {
	for i := range Structs {
		if Structs[i].Name == n {
			return &Structs[i]
		}
	}
	for i := range Nested {
		if Nested[i].Name == n {
			return &Nested[i]
		}
	}
	return nil
}

// SpecificName is the type name used for embedded / level-1 values of the struct.
func (s *Struct) SpecificName() string {
	if len(s.TypeNames) > 1 {
		return s.TypeNames[1]
	}
	if len(s.TypeNames) == 1 {
		return s.TypeNames[0]
	}
	return ""
}

func (s *Struct) Field(name string) *Field {
	for i := range s.Fields {
		if s.Fields[i].Name == name {
			return &s.Fields[i]
		}
	}
	return nil
}

func (s *Struct) FieldByTerm(term string) *Field {
	for i := range s.Fields {
		if s.Fields[i].Term == term {
			return &s.Fields[i]
		}
	}
	return nil
}

// PropertyFields are all fields except the identity pair id/type.
func (s *Struct) PropertyFields() []Field {
	var out []Field
	for _, f := range s.Fields {
		if f.Name == "ID" || f.Name == "Type" {
			continue
		}
		out = append(out, f)
	}
	return out
}

// Gen hands out fresh ids while a value is built; building the same recipe twice yields equal values.
type Gen struct{ n int }

// IRI returns a fresh absolute URL; the presentations rotate (plain, with port, with query, sub-domain with fragment)
// so that every check that uses the universe also sees IRIs with a port, a query and a fragment.
func (g *Gen) IRI() ap.IRI {
	g.n++
	switch g.n % 4 {
	case 1:
		return ap.IRI(fmt.Sprintf("https://example.com/%d", g.n))
	case 2:
		return ap.IRI(fmt.Sprintf("https://example.com:8443/objects/%d", g.n))
	case 3:
		return ap.IRI(fmt.Sprintf("https://example.com/search?id=%d&kind=x", g.n))
	}
	return ap.IRI(fmt.Sprintf("http://social.example.org/~user/%d#main", g.n))
}

// Codec restricts shapes to what a codec's normal form can carry.
type Codec int

const (
	AnyCodec Codec = iota
	JSON
	Gob
)

// Shape is one admissible value shape of a kind.
type Shape struct {
	Name    string
	Class   string // shape class for finding keys
	Quick   bool
	GobOnly bool
	NoJSON  bool // a value JSON cannot carry unchanged (ill-formed UTF-8, repeated language tags, an explicit "und" beside an untagged entry)
	Build   func(g *Gen) reflect.Value
}

func val(v any) reflect.Value { return reflect.ValueOf(v) }

// Embedded builds a pointer to a level-0 value of struct s with id and type.
func Embedded(s *Struct, g *Gen, withID, withType bool) reflect.Value {
	p := reflect.New(s.Type)
	e := p.Elem()
	if withID {
		e.FieldByName("ID").Set(val(g.IRI()))
	}
	if withType {
		e.FieldByName("Type").Set(val(ap.ActivityVocabularyType(s.SpecificName())))
	}
	if s.Name == "Link" {
		e.FieldByName("Href").Set(val(g.IRI()))
	}
	return p
}

func nlv(pairs ...string) ap.NaturalLanguageValues {
	var n ap.NaturalLanguageValues
	for i := 0; i+1 < len(pairs); i += 2 {
		n = append(n, ap.LangRefValue{Ref: ap.LangRef(pairs[i]), Value: ap.Content(pairs[i+1])})
	}
	return n
}

func itemShape(name, class string, quick bool, f func(g *Gen) ap.Item) Shape {
	return Shape{Name: name, Class: class, Quick: quick, Build: func(g *Gen) reflect.Value {
		it := f(g)
		v := reflect.New(tItem).Elem()
		if it != nil {
			v.Set(reflect.ValueOf(it))
		}
		return v
	}}
}

func obj(name string, g *Gen) ap.Item {
	return Embedded(ByName(name), g, true, true).Interface().(ap.Item)
}

var quickEmbedded = map[string]bool{"Object": true, "Actor": true, "Activity": true, "Link": true, "OrderedCollection": true}

// ItemShapes are the shapes of a single-item property at nesting depth 1.
func ItemShapes() []Shape {
	out := []Shape{
		itemShape("iri", "iri", true, func(g *Gen) ap.Item { return g.IRI() }),
	}
	for i := range Structs {
		s := &Structs[i]
		out = append(out, itemShape("obj:"+s.Name, "obj:"+s.Name, quickEmbedded[s.Name], func(g *Gen) ap.Item {
			return Embedded(s, g, true, true).Interface().(ap.Item)
		}))
	}
	out = append(out,
		itemShape("obj-noid", "obj-noid", true, func(g *Gen) ap.Item {
			return &ap.Object{Type: ap.NoteType, Name: nlv("-", "anon")}
		}),
		itemShape("obj-notype", "obj-notype", true, func(g *Gen) ap.Item {
			return &ap.Object{ID: g.IRI(), Name: nlv("-", "untyped")}
		}),
		itemShape("obj-bare", "obj-bare", true, func(g *Gen) ap.Item {
			return &ap.Object{Name: nlv("-", "bare")}
		}),
		itemShape("val:Object", "val:Object", false, func(g *Gen) ap.Item {
			return ap.Object{ID: g.IRI(), Type: ap.NoteType}
		}),
		itemShape("val:Actor", "val:Actor", false, func(g *Gen) ap.Item {
			return ap.Actor{ID: g.IRI(), Type: ap.PersonType}
		}),
		itemShape("list[iri]", "list1", true, func(g *Gen) ap.Item { return ap.ItemCollection{g.IRI()} }),
		itemShape("list[obj]", "list1", false, func(g *Gen) ap.Item { return ap.ItemCollection{obj("Object", g)} }),
		itemShape("list[iri,iri]", "list", true, func(g *Gen) ap.Item { return ap.ItemCollection{g.IRI(), g.IRI()} }),
		itemShape("list[iri,obj]", "list", false, func(g *Gen) ap.Item { return ap.ItemCollection{g.IRI(), obj("Object", g)} }),
		itemShape("list[obj,link]", "list", false, func(g *Gen) ap.Item { return ap.ItemCollection{obj("Actor", g), obj("Link", g)} }),
		itemShape("list[obj,obj]", "list", false, func(g *Gen) ap.Item { return ap.ItemCollection{obj("Object", g), obj("Activity", g)} }),
		itemShape("iris[2]", "list", false, func(g *Gen) ap.Item { return ap.IRIs{g.IRI(), g.IRI()} }),
		itemShape("list[17]", "list-long", false, func(g *Gen) ap.Item { return LongList(g, 17) }),
		itemShape("list[33]", "list-long", false, func(g *Gen) ap.Item { return LongList(g, 33) }),
		itemShape("list[65]", "list-long", false, func(g *Gen) ap.Item { return LongList(g, 65) }),
	)
	return out
}

func itemsShape(name string, quick bool, f func(g *Gen) ap.ItemCollection) Shape {
	class := "list"
	return Shape{Name: name, Class: class, Quick: quick, Build: func(g *Gen) reflect.Value { return val(f(g)) }}
}

// ItemsShapes are the shapes of an ItemCollection-typed property (lengths 1-3).
func ItemsShapes() []Shape {
	return append([]Shape{
		{Name: "[iri]", Class: "list1-iri", Quick: true, Build: func(g *Gen) reflect.Value { return val(ap.ItemCollection{g.IRI()}) }},
		{Name: "[obj]", Class: "list1-obj", Quick: true, Build: func(g *Gen) reflect.Value { return val(ap.ItemCollection{obj("Object", g)}) }},
		{Name: "[link]", Class: "list1-link", Quick: false, Build: func(g *Gen) reflect.Value { return val(ap.ItemCollection{obj("Link", g)}) }},
		{Name: "[actor]", Class: "list1-obj", Quick: false, Build: func(g *Gen) reflect.Value { return val(ap.ItemCollection{obj("Actor", g)}) }},
		itemsShape("[iri,iri]", true, func(g *Gen) ap.ItemCollection { return ap.ItemCollection{g.IRI(), g.IRI()} }),
		itemsShape("[iri,obj]", false, func(g *Gen) ap.ItemCollection { return ap.ItemCollection{g.IRI(), obj("Object", g)} }),
		itemsShape("[obj,link]", false, func(g *Gen) ap.ItemCollection { return ap.ItemCollection{obj("Actor", g), obj("Link", g)} }),
		itemsShape("[obj,obj]", false, func(g *Gen) ap.ItemCollection { return ap.ItemCollection{obj("Object", g), obj("Activity", g)} }),
		itemsShape("[iri,obj,iri]", false, func(g *Gen) ap.ItemCollection {
			return ap.ItemCollection{g.IRI(), obj("Question", g), g.IRI()}
		}),
		itemsShape("[17]", false, func(g *Gen) ap.ItemCollection { return LongList(g, 17) }),
		itemsShape("[33]", false, func(g *Gen) ap.ItemCollection { return LongList(g, 33) }),
		itemsShape("[65]", false, func(g *Gen) ap.ItemCollection { return LongList(g, 65) }),
	}, relatedMemberShapes()...)
}

// relatedMemberShapes: lists whose members have DIFFERENT ids but are related in another way - one member's href / url is the other
// member's IRI, or the members are equal in everything but their id (for every struct type): members are told apart by their ids,
// whatever a type's own notion of sameness or of "the link it stands for" says.
func relatedMemberShapes() []Shape {
	out := []Shape{
		itemsShape("[iri,link-to-it]", false, func(g *Gen) ap.ItemCollection {
			x := g.IRI()
			return ap.ItemCollection{x, &ap.Link{ID: g.IRI(), Type: ap.MentionType, Href: x, Name: nlv("-", "@x")}}
		}),
		itemsShape("[link-to-it,iri]", false, func(g *Gen) ap.ItemCollection {
			x := g.IRI()
			return ap.ItemCollection{&ap.Link{ID: g.IRI(), Type: ap.LinkType, Href: x}, x}
		}),
		itemsShape("[iri,obj-with-that-url]", false, func(g *Gen) ap.ItemCollection {
			x := g.IRI()
			return ap.ItemCollection{x, &ap.Object{ID: g.IRI(), Type: ap.PageType, URL: x}}
		}),
	}
	for i := range Structs {
		st := &Structs[i]
		out = append(out, itemsShape("[twins-but-id:"+st.Name+"]", false, func(g *Gen) ap.ItemCollection {
			mk := func() ap.Item {
				p := reflect.New(st.Type)
				p.Elem().FieldByName("ID").Set(reflect.ValueOf(g.IRI()))
				p.Elem().FieldByName("Type").Set(reflect.ValueOf(ap.ActivityVocabularyType(st.SpecificName())))
				p.Elem().FieldByName("Name").Set(reflect.ValueOf(nlv("-", "the same name")))
				return p.Interface().(ap.Item)
			}
			return ap.ItemCollection{mk(), mk()}
		}))
	}
	return out
}

var (
	T1     = time.Date(2021, 3, 4, 5, 6, 7, 0, time.UTC)
	zoneP2 = time.FixedZone("p2", 2*3600)
)

// Shapes returns the shapes of a (non-item) kind.
func Shapes(k Kind) []Shape {
	switch k {
	case KItem:
		return ItemShapes()
	case KItems:
		return ItemsShapes()
	case KNLV:
		return []Shape{
			{Name: "nlv1-untagged", Class: "lang1", Quick: true, Build: func(*Gen) reflect.Value { return val(nlv("-", "Hello world")) }},
			{Name: "nlv1-en", Class: "lang1-tagged", Quick: true, Build: func(*Gen) reflect.Value { return val(nlv("en", "Hello")) }},
			{Name: "nlv2", Class: "lang2+", Quick: true, Build: func(*Gen) reflect.Value { return val(nlv("en", "Hello", "fr", "Bonjour")) }},
			{Name: "nlv-300", Class: "lang1-long", Build: func(*Gen) reflect.Value { return val(nlv("-", LongText(300))) }},
			{Name: "nlv-4097", Class: "lang1-long", Build: func(*Gen) reflect.Value { return val(nlv("-", LongText(4097))) }},
			{Name: "nlv2-long", Class: "lang2+-long", Build: func(*Gen) reflect.Value { return val(nlv("en", LongText(1025), "fr", LongText(513))) }},
			{Name: "nlv3", Class: "lang2+", Build: func(*Gen) reflect.Value { return val(nlv("en-US", "Hello", "fr", "Bonjour", "zh-Hant", "你好")) }},
			// BCP 47 tags with several subtags, singletons and private use
			{Name: "nlv-subtags", Class: "lang2+-subtags", Build: func(*Gen) reflect.Value {
				return val(nlv("zh-Hant-TW", "你好", "en-x-pirate", "Ahoy", "de-DE-u-co-phonebk", "Hallo", "x-klingon", "nuqneH", "es-419", "Hola"))
			}},
			{Name: "nlv-bracket", Class: "lang2+-bracket", Build: func(*Gen) reflect.Value { return val(nlv("-", "Bob[en]", "fr", "Robert[-]")) }},
			{Name: "nlv-und+untagged", Class: "lang2+-und", NoJSON: true, Build: func(*Gen) reflect.Value { return val(nlv("und", "explicit und", "-", "untagged", "fr", "tagged")) }},
			{Name: "nlv-repeated-tag", Class: "lang2+-repeated", NoJSON: true, Build: func(*Gen) reflect.Value { return val(nlv("en", "first", "fr", "autre", "en", "second")) }},
			{Name: "nlv-ill-formed", Class: "lang2+-bytes", NoJSON: true, Build: func(*Gen) reflect.Value { return val(nlv("-", "caf\xe9 \x85 it\x92s", "en", "cut caf\xc3")) }},
			{Name: "nlv-untagged+tagged", Class: "lang2+-untagged", Build: func(*Gen) reflect.Value { return val(nlv("-", "plain", "fr", "bonjour")) }},
			{Name: "nlv-tagged+untagged", Class: "lang2+-untagged", Build: func(*Gen) reflect.Value { return val(nlv("en", "hello", "-", "plain")) }},
			// entries that agree in one component (the same text under two tags or untagged and tagged; an empty text after a
			// non-empty one): a codec that streams the entries, or that recognises an entry by its text, confuses them
			{Name: "nlv-same-text", Class: "lang2+-same-text", Build: func(*Gen) reflect.Value { return val(nlv("en", "same words", "fr", "same words")) }},
			{Name: "nlv-same-text-untagged", Class: "lang2+-same-text", Build: func(*Gen) reflect.Value { return val(nlv("-", "same words", "fr", "same words")) }},
			{Name: "nlv-later-empty-text", Class: "lang2+-empty-text", GobOnly: true, Build: func(*Gen) reflect.Value { return val(nlv("en", "Hello", "fr", "")) }},
			{Name: "nlv-later-zero-ref", Class: "lang2+-zero-ref", GobOnly: true, Build: func(*Gen) reflect.Value { return val(nlv("en", "Hello", "", "Salut")) }},
		}
	case KTime:
		return []Shape{
			{Name: "utc-sec", Class: "time", Quick: true, Build: func(*Gen) reflect.Value { return val(T1) }},
			{Name: "zone+02", Class: "time-zone", Build: func(*Gen) reflect.Value { return val(T1.In(zoneP2)) }},
			// offsets that are not whole hours: +05:45, and a local-mean-time style offset with seconds (RFC 3339 cannot write those)
			{Name: "zone+05:45", Class: "time-zone-odd", Build: func(*Gen) reflect.Value { return val(T1.In(time.FixedZone("NPT", 5*3600+45*60))) }},
			{Name: "zone+00:19:32", Class: "time-zone-odd", Build: func(*Gen) reflect.Value { return val(T1.In(time.FixedZone("AMT", 19*60+32))) }},
			{Name: "zone-00:00:01", Class: "time-zone-odd", Build: func(*Gen) reflect.Value { return val(T1.In(time.FixedZone("x", -1))) }},
			{Name: "pre-epoch", Class: "time-pre-epoch", Build: func(*Gen) reflect.Value { return val(time.Date(1969, 7, 20, 20, 17, 40, 0, time.UTC)) }},
			{Name: "epoch", Class: "time-epoch", Build: func(*Gen) reflect.Value { return val(time.Unix(0, 0).UTC()) }},
			{Name: "far-future", Class: "time-far", Build: func(*Gen) reflect.Value { return val(time.Date(2999, 12, 31, 23, 59, 59, 0, time.UTC)) }},
			{Name: "utc-nanos", Class: "time-nanos", GobOnly: true, Build: func(*Gen) reflect.Value { return val(T1.Add(123456789)) }},
			{Name: "zone-nanos", Class: "time-nanos", GobOnly: true, Build: func(*Gen) reflect.Value { return val(T1.Add(987654321).In(zoneP2)) }},
		}
	case KDuration:
		return []Shape{
			{Name: "+90s", Class: "duration", Quick: true, Build: func(*Gen) reflect.Value { return val(90 * time.Second) }},
			{Name: "+1h2m3s", Class: "duration", Build: func(*Gen) reflect.Value { return val(time.Hour + 2*time.Minute + 3*time.Second) }},
			{Name: "-45s", Class: "duration-negative", Build: func(*Gen) reflect.Value { return val(-45 * time.Second) }},
			{Name: "+1.5s", Class: "duration-subsecond", GobOnly: true, Build: func(*Gen) reflect.Value { return val(1500 * time.Millisecond) }},
		}
	case KFloat:
		return []Shape{
			{Name: "2.25", Class: "float", Quick: true, Build: func(*Gen) reflect.Value { return val(2.25) }},
			{Name: "-3.5", Class: "float-negative", Quick: true, Build: func(*Gen) reflect.Value { return val(-3.5) }},
			{Name: "120", Class: "float", Build: func(*Gen) reflect.Value { return val(120.0) }},
			{Name: "48.8583701", Class: "float-7-decimals", Build: func(*Gen) reflect.Value { return val(48.8583701) }},
			{Name: "1e-7", Class: "float-tiny", Build: func(*Gen) reflect.Value { return val(1e-7) }},
			{Name: "1.5e15", Class: "float-large", Build: func(*Gen) reflect.Value { return val(1.5e15) }},
			// magnitudes at which a writer may switch to exponent notation, with mantissas that do not survive a two-step
			// (mantissa x power of ten) reading
			{Name: "12345678.9", Class: "float-large", Build: func(*Gen) reflect.Value { return val(12345678.9) }},
			{Name: "1234567.891", Class: "float-large", Build: func(*Gen) reflect.Value { return val(1234567.891) }},
			{Name: "98765432.123456", Class: "float-large", Build: func(*Gen) reflect.Value { return val(98765432.123456) }},
			{Name: "7.000001e9", Class: "float-large", Build: func(*Gen) reflect.Value { return val(7.000001e9) }},
			{Name: "3e-05", Class: "float-tiny", Build: func(*Gen) reflect.Value { return val(3e-05) }},
			{Name: "2.5e-5", Class: "float-tiny", Build: func(*Gen) reflect.Value { return val(2.5e-5) }},
			{Name: "6.02214076e-6", Class: "float-tiny", Build: func(*Gen) reflect.Value { return val(6.02214076e-6) }},
			{Name: "1e21", Class: "float-large", Build: func(*Gen) reflect.Value { return val(1e21) }},
			{Name: "123456789012345680000", Class: "float-large", Build: func(*Gen) reflect.Value { return val(1.2345678901234568e20) }},
			{Name: "0.1+0.2", Class: "float", Build: func(*Gen) reflect.Value { return val(0.1 + 0.2) }},
		}
	case KInt:
		return []Shape{
			{Name: "3", Class: "int", Quick: true, Build: func(*Gen) reflect.Value { return val(int64(3)) }},
			{Name: "1", Class: "int", Build: func(*Gen) reflect.Value { return val(int64(1)) }},
			{Name: "-7", Class: "int-negative", Build: func(*Gen) reflect.Value { return val(int64(-7)) }},
			{Name: "2^53+1", Class: "int-above-2^53", Build: func(*Gen) reflect.Value { return val(int64(1<<53 + 1)) }},
			{Name: "max-int64", Class: "int-above-2^53", Build: func(*Gen) reflect.Value { return val(int64(1<<63 - 1)) }},
		}
	case KUint:
		return []Shape{
			{Name: "3", Class: "uint", Quick: true, Build: func(*Gen) reflect.Value { return val(uint(3)) }},
			{Name: "1", Class: "uint", Build: func(*Gen) reflect.Value { return val(uint(1)) }},
			{Name: "2^53+1", Class: "uint-above-2^53", Build: func(*Gen) reflect.Value { return val(uint(1<<53 + 1)) }},
		}
	case KBool:
		return []Shape{{Name: "true", Class: "bool", Quick: true, Build: func(*Gen) reflect.Value { return val(true) }}}
	case KIRI:
		return []Shape{{Name: "iri", Class: "iri", Quick: true, Build: func(g *Gen) reflect.Value { return val(g.IRI()) }}}
	case KMime:
		return []Shape{{Name: "text/html", Class: "string", Quick: true, Build: func(*Gen) reflect.Value { return val(ap.MimeType("text/html")) }}}
	case KLangRef:
		return []Shape{{Name: "en", Class: "string", Quick: true, Build: func(*Gen) reflect.Value { return val(ap.LangRef("en")) }}}
	case KVocabType:
		return []Shape{{Name: "Note", Class: "string", Quick: true, Build: func(*Gen) reflect.Value { return val(ap.NoteType) }}}
	case KString:
		return []Shape{{Name: "str", Class: "string", Quick: true, Build: func(*Gen) reflect.Value { return val("miles") }}}
	case KSource:
		return []Shape{
			{Name: "src-content", Class: "source", Build: func(*Gen) reflect.Value { return val(ap.Source{Content: nlv("-", "raw *text*")}) }},
			{Name: "src-mime", Class: "source", Build: func(*Gen) reflect.Value { return val(ap.Source{MediaType: "text/markdown"}) }},
			{Name: "src-content-map", Class: "source", Quick: true, Build: func(*Gen) reflect.Value {
				return val(ap.Source{Content: nlv("en", "raw *text*", "fr", "texte *brut*"), MediaType: "text/markdown"})
			}},
			{Name: "src-both", Class: "source", Quick: true, Build: func(*Gen) reflect.Value {
				return val(ap.Source{Content: nlv("-", "raw *text*"), MediaType: "text/markdown"})
			}},
		}
	case KPublicKey:
		return []Shape{
			{Name: "pk-id", Class: "publickey", Build: func(g *Gen) reflect.Value { return val(ap.PublicKey{ID: g.IRI()}) }},
			{Name: "pk-pem", Class: "publickey", Build: func(g *Gen) reflect.Value {
				return val(ap.PublicKey{PublicKeyPem: "-----BEGIN PUBLIC KEY-----\nMIIB\n-----END PUBLIC KEY-----"})
			}},
			{Name: "pk-id-owner", Class: "publickey", Build: func(g *Gen) reflect.Value { return val(ap.PublicKey{ID: g.IRI(), Owner: g.IRI()}) }},
			{Name: "pk-all", Class: "publickey", Quick: true, Build: func(g *Gen) reflect.Value {
				return val(ap.PublicKey{ID: g.IRI(), Owner: g.IRI(), PublicKeyPem: "-----BEGIN PUBLIC KEY-----\nMIIB\n-----END PUBLIC KEY-----"})
			}},
		}
	case KEndpoints:
		var out []Shape
		et := reflect.TypeOf(ap.Endpoints{})
		for i := 0; i < et.NumField(); i++ {
			i := i
			out = append(out, Shape{Name: "ep-" + et.Field(i).Name, Class: "endpoints", Build: func(g *Gen) reflect.Value {
				e := reflect.New(et)
				e.Elem().Field(i).Set(reflect.ValueOf(g.IRI()))
				return e
			}})
		}
		// endpoints that are embedded objects / collections with ids of their own (the only pointer-typed struct property of the
		// vocabulary: what hangs off it is shared by every shallow copy of the actor)
		out = append(out, Shape{Name: "ep-embedded", Class: "endpoints-embedded", Quick: true, Build: func(g *Gen) reflect.Value {
			return val(&ap.Endpoints{SharedInbox: &ap.OrderedCollection{ID: g.IRI(), Type: ap.OrderedCollectionType}, UploadMedia: &ap.Object{ID: g.IRI(), Type: ap.NoteType},
				OauthTokenEndpoint: g.IRI()})
		}})
		out = append(out, Shape{Name: "ep-all", Class: "endpoints", Quick: true, Build: func(g *Gen) reflect.Value {
			e := reflect.New(et)
			for i := 0; i < et.NumField(); i++ {
				e.Elem().Field(i).Set(reflect.ValueOf(g.IRI()))
			}
			return e
		}})
		return out
	}
	return nil
}

// Set populates one field with one shape.
type Set struct {
	Field Field
	Shape Shape
}

// Recipe is a deterministic constructor of one vocabulary value.
type Recipe struct {
	Struct   *Struct
	Value    bool // build the value (non-pointer) form
	TypeName string
	NoID     bool
	Sets     []Set
}

// BuildValue builds the value as a reflect.Value (pointer to struct) using g.
func (r Recipe) BuildValue(g *Gen) reflect.Value {
	p := reflect.New(r.Struct.Type)
	e := p.Elem()
	if !r.NoID {
		if f := e.FieldByName("ID"); f.IsValid() {
			f.Set(val(g.IRI()))
		}
	}
	if r.TypeName != "" {
		if f := e.FieldByName("Type"); f.IsValid() {
			f.Set(val(ap.ActivityVocabularyType(r.TypeName)))
		}
	}
	for _, s := range r.Sets {
		v := s.Shape.Build(g)
		f := e.Field(s.Field.Index)
		if v.Type() != f.Type() && v.Type().ConvertibleTo(f.Type()) && f.Kind() != reflect.Interface {
			v = v.Convert(f.Type())
		}
		if f.Kind() == reflect.Interface {
			if v.Kind() == reflect.Interface && v.IsNil() {
				continue
			}
			if v.Kind() == reflect.Interface {
				v = v.Elem()
			}
		}
		f.Set(v)
	}
	return p
}

// Build builds the value (fresh ids start at 1, so two builds are deep-equal but share no memory).
func (r Recipe) Build() any {
	p := r.BuildValue(&Gen{})
	if r.Value {
		return p.Elem().Interface()
	}
	return p.Interface()
}

// Item builds the value as an Item (nested structs such as Source are not Items).
func (r Recipe) Item() ap.Item {
	it, _ := r.Build().(ap.Item)
	return it
}

func (r Recipe) String() string {
	var b strings.Builder
	if !r.Value {
		b.WriteByte('*')
	}
	b.WriteString(r.Struct.Name)
	b.WriteByte('{')
	if !r.NoID {
		b.WriteString("id")
	} else {
		b.WriteString("no-id")
	}
	fmt.Fprintf(&b, ",type=%q", r.TypeName)
	for _, s := range r.Sets {
		fmt.Fprintf(&b, ",%s=%s", s.Field.Term, s.Shape.Name)
	}
	b.WriteByte('}')
	return b.String()
}

// NestedShape turns a recipe into an item shape (used for nesting depth >= 2).
func NestedShape(r Recipe) Shape {
	return Shape{Name: r.String(), Class: "obj:" + r.Struct.Name + "+", Build: func(g *Gen) reflect.Value {
		p := r.BuildValue(g)
		v := reflect.New(tItem).Elem()
		if r.Value {
			v.Set(p.Elem())
		} else {
			v.Set(p)
		}
		return v
	}}
}

// ShapesFor returns the shapes admissible for a field under a codec; quickOnly keeps the q subset.
func ShapesFor(f Field, codec Codec, quickOnly bool) []Shape {
	var out []Shape
	for _, s := range Shapes(f.Kind) {
		if s.GobOnly && codec != Gob {
			continue
		}
		if s.NoJSON && codec == JSON {
			continue
		}
		if quickOnly && !s.Quick {
			continue
		}
		out = append(out, s)
	}
	return out
}

// Level0 yields the bare values of s: id+type for each type name, id only, type only.
func Level0(s *Struct, fn func(Recipe)) {
	for _, n := range s.TypeNames {
		fn(Recipe{Struct: s, TypeName: n})
	}
	fn(Recipe{Struct: s, TypeName: ""})
	fn(Recipe{Struct: s, TypeName: s.SpecificName(), NoID: true})
}

// Level1 yields every (field x shape) value of s.
func Level1(s *Struct, codec Codec, quickOnly bool, fn func(Recipe)) {
	for _, f := range s.PropertyFields() {
		for _, sh := range ShapesFor(f, codec, quickOnly) {
			fn(Recipe{Struct: s, TypeName: s.SpecificName(), Sets: []Set{{f, sh}}})
		}
	}
}

// Level2 yields every unordered field pair x q-shape pair of s.
func Level2(s *Struct, codec Codec, fn func(Recipe)) {
	fs := s.PropertyFields()
	for i := 0; i < len(fs); i++ {
		for j := i + 1; j < len(fs); j++ {
			for _, a := range ShapesFor(fs[i], codec, true) {
				for _, b := range ShapesFor(fs[j], codec, true) {
					fn(Recipe{Struct: s, TypeName: s.SpecificName(), Sets: []Set{{fs[i], a}, {fs[j], b}}})
				}
			}
		}
	}
}

// Saturated yields values with every field populated, rotating through the shapes.
func Saturated(s *Struct, codec Codec, fn func(Recipe)) {
	fs := s.PropertyFields()
	max := 0
	for _, f := range fs {
		if n := len(ShapesFor(f, codec, false)); n > max {
			max = n
		}
	}
	for v := 0; v < max; v++ {
		r := Recipe{Struct: s, TypeName: s.SpecificName()}
		for k, f := range fs {
			sh := ShapesFor(f, codec, false)
			if len(sh) == 0 {
				continue
			}
			r.Sets = append(r.Sets, Set{f, sh[(v+k)%len(sh)]})
		}
		fn(r)
	}
}

// Depth2Embedded yields, for every struct type, every (field x q shape) level-1 value as an item shape.
func Depth2Embedded(codec Codec, quickOnly bool, fn func(Shape)) {
	for i := range Structs {
		s := &Structs[i]
		Level1(s, codec, quickOnly, func(r Recipe) { fn(NestedShape(r)) })
	}
}

// ItemFields returns the fields of s of kind item / items.
func (s *Struct) ItemFields() []Field {
	var out []Field
	for _, f := range s.PropertyFields() {
		if f.Kind == KItem || f.Kind == KItems {
			out = append(out, f)
		}
	}
	return out
}

// WrapForField adapts an item shape to a field: for an ItemCollection field the item is wrapped in a list of two
// (a fresh IRI first) so that it sits in a list position.
func WrapForField(f Field, sh Shape) Shape {
	if f.Kind != KItems {
		return sh
	}
	return Shape{Name: "[iri," + sh.Name + "]", Class: "list+" + sh.Class, Build: func(g *Gen) reflect.Value {
		first := g.IRI()
		v := sh.Build(g)
		var it ap.Item
		if !v.IsNil() {
			it = v.Elem().Interface().(ap.Item)
		}
		return val(ap.ItemCollection{first, it})
	}}
}

// LongList is a list of n members with pairwise distinct ids: IRIs with an embedded object with id every 5th, one id-less
// object at position 2 and (from 9 members on) a second id-less object near the end.
func LongList(g *Gen, n int) ap.ItemCollection {
	l := make(ap.ItemCollection, 0, n)
	for i := 0; i < n; i++ {
		switch {
		case i == 2:
			l = append(l, &ap.Object{Type: ap.NoteType, Name: nlv("-", "anonymous one")})
		case n > 8 && i == n-2:
			l = append(l, &ap.Object{Type: ap.NoteType, Name: nlv("-", "anonymous two")})
		case i%5 == 4:
			l = append(l, Embedded(ByName("Object"), g, true, true).Interface().(ap.Item))
		default:
			l = append(l, g.IRI())
		}
	}
	return l
}

// LongText is a text of exactly n bytes mixing ASCII with 2-, 3- and 4-byte runes and characters that need escaping.
func LongText(n int) string {
	unit := "abc défg € \"q\" 😀 \\n <b>&</b>\n"
	var b strings.Builder
	for b.Len() < n {
		b.WriteString(unit)
	}
	s := b.String()
	// cut on a rune boundary and pad with ASCII to the exact length
	cut := n
	for cut > 0 && !utf8.RuneStart(s[cut]) {
		cut--
	}
	return s[:cut] + strings.Repeat("x", n-cut)
}

// BoundaryStrings returns strings whose interesting character (a 2-, 3- or 4-byte rune, a quote, a line feed) sits at every
// offset from B-4 to B+1 for every power-of-two boundary B of a buffered or chunked implementation.
func BoundaryStrings(asciiOnlyAround bool) []struct{ Name, S string } {
	var out []struct{ Name, S string }
	specials := []struct{ n, s string }{{"2-byte", "é"}, {"3-byte", "€"}, {"4-byte", "😀"}, {"quote", "\""}, {"LF", "\n"}}
	if asciiOnlyAround {
		specials = specials[:3]
	}
	for _, B := range []int{64, 256, 512, 1024, 4096} {
		for off := B - 4; off <= B+1; off++ {
			for _, sp := range specials {
				out = append(out, struct{ Name, S string }{fmt.Sprintf("%s@%d", sp.n, off), strings.Repeat("a", off) + sp.s + "zz"})
			}
		}
	}
	// the special character as the last, the last but one and the only character of a short and of a long string
	for _, sp := range append(specials, struct{ n, s string }{"backslash", "\\"}, struct{ n, s string }{"TAB", "\t"})[:] {
		if asciiOnlyAround && len(sp.s) == 1 {
			continue
		}
		for _, pre := range []string{"", "end", strings.Repeat("b", 300)} {
			out = append(out, struct{ Name, S string }{fmt.Sprintf("%s-last/%d", sp.n, len(pre)), pre + sp.s},
				struct{ Name, S string }{fmt.Sprintf("%s-last-but-one/%d", sp.n, len(pre)), pre + sp.s + "."})
		}
	}
	return out
}

// RuneChunks returns every Unicode scalar value (U+0000..U+10FFFF without the surrogate range, which no valid UTF-8 text holds)
// in strings of n consecutive code points, each string wrapped in ASCII letters.
func RuneChunks(n int) []struct{ Name, S string } {
	var out []struct{ Name, S string }
	var b strings.Builder
	first, cnt := rune(0), 0
	flush := func(last rune) {
		if cnt > 0 {
			out = append(out, struct{ Name, S string }{fmt.Sprintf("U+%04X..U+%04X", first, last), "a" + b.String() + "z"})
		}
		b.Reset()
		cnt = 0
	}
	for r := rune(0); r <= 0x10FFFF; r++ {
		if r >= 0xD800 && r <= 0xDFFF {
			continue
		}
		if cnt == 0 {
			first = r
		}
		b.WriteRune(r)
		cnt++
		if cnt == n {
			flush(r)
		}
	}
	flush(0x10FFFF)
	return out
}

// StringForms are spellings of media types, language references, units and type names as other implementations write them: letter
// case, missing or extra blanks, quoted and reordered parameters, strings that look like JSON literals.
var StringForms = []string{
	"text/html;charset=utf-8", "Image/PNG", `text/plain; charset="utf-8"`, "TEXT/PLAIN; CHARSET=UTF-8", "text/plain; format=flowed; charset=utf-8",
	"text/plain;charset=utf-8;format=flowed", `application/ld+json; profile="https://www.w3.org/ns/activitystreams"`, " text/html ", "text/html;",
	"text/html; charset=utf-8; charset=latin1", "x", "EN-us", "en_US", "Miles", "1", "true", "null", "{}", `"quoted"`, "a,b", "a b",
}

// Degenerate yields, for struct s, every (field, empty-but-non-nil value) together with one other populated property:
// an empty nested struct, list, language list or endpoints pointer says nothing, and must not make a codec drop its neighbours.
func Degenerate(s *Struct, codec Codec, fn func(Recipe)) {
	empty := func(f Field) (Shape, bool) {
		switch f.Kind {
		case KItems:
			return Shape{Name: "empty-list", Class: "empty", Build: func(*Gen) reflect.Value { return val(ap.ItemCollection{}) }}, true
		case KItem:
			return Shape{Name: "empty-object", Class: "empty", Build: func(*Gen) reflect.Value {
				v := reflect.New(tItem).Elem()
				v.Set(reflect.ValueOf(&ap.Object{}))
				return v
			}}, true
		case KNLV:
			return Shape{Name: "empty-nlv", Class: "empty", Build: func(*Gen) reflect.Value { return val(ap.NaturalLanguageValues{}) }}, true
		case KEndpoints:
			return Shape{Name: "empty-endpoints", Class: "empty", Build: func(*Gen) reflect.Value { return val(&ap.Endpoints{}) }}, true
		}
		return Shape{}, false
	}
	fs := s.PropertyFields()
	for _, f := range fs {
		e, ok := empty(f)
		if !ok {
			continue
		}
		for _, o := range fs {
			if o.Index == f.Index {
				continue
			}
			sh := ShapesFor(o, codec, true)
			if len(sh) == 0 {
				continue
			}
			fn(Recipe{Struct: s, TypeName: s.SpecificName(), Sets: []Set{{f, e}, {o, sh[0]}}})
		}
	}
}

// SharedIdentity yields values in which two different item properties mention the SAME identity (same IRI; IRI and embedded
// object with that id; lists sharing one member): a codec or helper that de-duplicates across properties shows up here.
func SharedIdentity(s *Struct, fn func(Recipe)) {
	fs := s.ItemFields()
	same := ap.IRI("https://example.com/shared/identity")
	mk := func(f Field, form int) Shape {
		return Shape{Name: fmt.Sprintf("shared#%d", form), Class: "shared", Build: func(g *Gen) reflect.Value {
			var it ap.Item
			switch form {
			case 0:
				it = same
			case 1:
				it = &ap.Actor{ID: same, Type: ap.PersonType}
			default:
				it = ap.ItemCollection{g.IRI(), same}
			}
			if f.Kind == KItems {
				if col, ok := it.(ap.ItemCollection); ok {
					return val(col)
				}
				return val(ap.ItemCollection{it, g.IRI()})
			}
			v := reflect.New(tItem).Elem()
			v.Set(reflect.ValueOf(it))
			return v
		}}
	}
	for i := 0; i < len(fs); i++ {
		for j := i + 1; j < len(fs); j++ {
			for _, forms := range [][2]int{{0, 0}, {0, 1}, {2, 0}} {
				fn(Recipe{Struct: s, TypeName: s.SpecificName(), Sets: []Set{{fs[i], mk(fs[i], forms[0])}, {fs[j], mk(fs[j], forms[1])}}})
			}
		}
	}
}

// Scale yields values with boundary-length strings in the string-bearing positions of a few representative structs.
func Scale(fn func(Recipe)) {
	type pos struct{ st, field string }
	textPos := []pos{{"Object", "Content"}, {"Object", "Name"}, {"Actor", "PreferredUsername"}, {"Link", "Name"}}
	for _, bs := range BoundaryStrings(false) {
		bs := bs
		for _, p := range textPos {
			st := ByName(p.st)
			f := *st.Field(p.field)
			fn(Recipe{Struct: st, TypeName: st.SpecificName(), Sets: []Set{{f, Shape{Name: "text:" + bs.Name, Class: "lang1-boundary", Build: func(*Gen) reflect.Value { return val(nlv("-", bs.S)) }}}}})
			fn(Recipe{Struct: st, TypeName: st.SpecificName(), Sets: []Set{{f, Shape{Name: "maptext:" + bs.Name, Class: "lang2+-boundary", Build: func(*Gen) reflect.Value { return val(nlv("en", "short", "fr", bs.S)) }}}}})
		}
	}
	// every Unicode scalar value, in texts of 128 consecutive code points (untagged, and as the second entry of a map)
	for _, rc := range RuneChunks(128) {
		rc := rc
		for _, p := range textPos[:2] {
			st := ByName(p.st)
			f := *st.Field(p.field)
			fn(Recipe{Struct: st, TypeName: st.SpecificName(), Sets: []Set{{f, Shape{Name: "text:" + rc.Name, Class: "lang1-runes", Build: func(*Gen) reflect.Value { return val(nlv("-", rc.S)) }}}}})
		}
		st := ByName("Object")
		f := *st.Field("Summary")
		fn(Recipe{Struct: st, TypeName: st.SpecificName(), Sets: []Set{{f, Shape{Name: "maptext:" + rc.Name, Class: "lang2+-runes", Build: func(*Gen) reflect.Value { return val(nlv("en", "short", "fr", rc.S)) }}}}})
	}
	// spellings of string-typed properties that a codec must carry unchanged: it has no business normalising them
	for _, form := range StringForms {
		form := form
		for _, p := range []pos{{"Object", "MediaType"}, {"Link", "MediaType"}, {"Place", "Units"}, {"Link", "HrefLang"}, {"Tombstone", "FormerType"}} {
			st := ByName(p.st)
			f := *st.Field(p.field)
			fn(Recipe{Struct: st, TypeName: st.SpecificName(), Sets: []Set{{f, Shape{Name: "strform:" + form, Class: "string-form", Build: func(*Gen) reflect.Value {
				return reflect.ValueOf(form).Convert(f.Type)
			}}}}})
		}
		st := ByName("Object")
		f := *st.Field("Source")
		fn(Recipe{Struct: st, TypeName: st.SpecificName(), Sets: []Set{{f, Shape{Name: "srcform:" + form, Class: "string-form", Build: func(*Gen) reflect.Value {
			return val(ap.Source{Content: nlv("-", "raw"), MediaType: ap.MimeType(form)})
		}}}}})
	}
	strPos := []pos{{"Object", "MediaType"}, {"Place", "Units"}, {"Link", "HrefLang"}, {"Tombstone", "FormerType"}, {"Object", "URL"}, {"Link", "Href"}, {"Actor", "Inbox"}}
	for _, bs := range BoundaryStrings(true) {
		bs := bs
		for _, p := range strPos {
			st := ByName(p.st)
			f := *st.Field(p.field)
			fn(Recipe{Struct: st, TypeName: st.SpecificName(), Sets: []Set{{f, Shape{Name: "str:" + bs.Name, Class: "string-boundary", Build: func(*Gen) reflect.Value {
				s := bs.S
				switch f.Kind {
				case KItem:
					v := reflect.New(tItem).Elem()
					v.Set(reflect.ValueOf(ap.IRI("https://example.com/" + s)))
					return v
				case KIRI:
					return val(ap.IRI("https://example.com/" + s))
				}
				return reflect.ValueOf(s).Convert(f.Type)
			}}}}})
		}
	}
}

// IRIForms are legal presentations of an absolute IRI that a codec must carry unchanged and that equality must tell apart or
// identify exactly as documented: IPv6 literal hosts (with and without port), an explicit default port, userinfo, non-ASCII
// path and host, an upper-case scheme, an empty fragment and an empty query, percent-encoded octets in both letter cases.
var IRIForms = []struct {
	Name, S string
	NotURL  bool // absolute IRI, but not a URL with an authority: outside the stated domain of the codecs
}{
	{"ipv6", "https://[2001:db8::1]/users/1", false},
	{"ipv6-port", "https://[2001:db8::1]:8443/users/1", false},
	{"ipv6-short", "http://[::1]/a", false},
	{"default-port", "https://example.com:443/users/1", false},
	{"default-port-http", "http://example.com:80/users/1", false},
	{"userinfo", "https://jdoe@example.com/~jdoe", false},
	{"non-ascii-path", "https://example.com/users/josé", false},
	{"non-ascii-host", "https://bücher.example/users/1", false},
	{"upper-scheme", "HTTPS://example.com/users/1", false},
	{"empty-fragment", "https://example.com/users/1#", false},
	{"empty-query", "https://example.com/users/1?", false},
	{"pct-upper", "https://example.com/a%2Fb%C3%A9", false},
	{"pct-lower", "https://example.com/a%2fb%c3%a9", false},
	{"query-slash", "https://example.com/search?dir=/inbox/", false},
	{"urn", "urn:uuid:6e8bc430-9c3a-11d9-9669-0800200c9a66", true},
	{"as-public", "as:Public", true},
}

// IRIPresentations yields, for every struct and every IRI-bearing position (IRI-typed fields, single-item and list properties),
// a value holding each of the IRIForms there (alone, and in lists next to an ordinary IRI).
func IRIPresentations(fn func(Recipe)) {
	for i := range Structs {
		s := &Structs[i]
		for _, f := range s.Fields {
			if f.Kind != KIRI && f.Kind != KItem && f.Kind != KItems {
				continue
			}
			if f.Term == "type" {
				continue
			}
			for _, form := range IRIForms {
				if form.NotURL {
					continue
				}
				f, form := f, form
				fn(Recipe{Struct: s, TypeName: s.SpecificName(), NoID: f.Term == "id", Sets: []Set{{f, Shape{Name: "iri:" + form.Name, Class: "iri-" + form.Name, Build: func(g *Gen) reflect.Value {
					switch f.Kind {
					case KIRI:
						return val(ap.IRI(form.S))
					case KItem:
						v := reflect.New(tItem).Elem()
						v.Set(reflect.ValueOf(ap.IRI(form.S)))
						return v
					}
					return val(ap.ItemCollection{g.IRI(), ap.IRI(form.S)})
				}}}}})
			}
		}
	}
}

// GenericNames yields level-1 values typed with the GENERIC name of their struct ("Actor", "Activity", "Object",
// "IntransitiveActivity", "Collection" ...) instead of a specific one: a dispatch that enumerates the specific names only
// loses the struct's own properties for the generic name.
func GenericNames(s *Struct, codec Codec, fn func(Recipe)) {
	if s.Name == s.SpecificName() {
		return
	}
	Level1(s, codec, true, func(r Recipe) {
		r.TypeName = s.Name
		fn(r)
	})
	Saturated(s, codec, func(r Recipe) {
		r.TypeName = s.Name
		fn(r)
	})
}

// ListForms yields values whose item properties hold lists in their less common forms: a pointer to an ItemCollection, a
// one-member list (of an IRI / of an embedded object), IRIs, and - for list properties - slices that are windows into ONE shared
// backing array (to, cc, bto, bcc, tag cut from the same array, private ones first).
func ListForms(s *Struct, fn func(Recipe)) {
	for _, f := range s.ItemFields() {
		f := f
		if f.Kind == KItem {
			mk := func(name string, build func(g *Gen) ap.Item) {
				fn(Recipe{Struct: s, TypeName: s.SpecificName(), Sets: []Set{{f, Shape{Name: name, Class: "list-form", Build: func(g *Gen) reflect.Value {
					v := reflect.New(tItem).Elem()
					v.Set(reflect.ValueOf(build(g)))
					return v
				}}}}})
			}
			mk("*list[obj,iri]", func(g *Gen) ap.Item {
				c := ap.ItemCollection{Embedded(ByName("Object"), g, true, true).Interface().(ap.Item), g.IRI()}
				return &c
			})
			mk("list[1 iri]", func(g *Gen) ap.Item { return ap.ItemCollection{g.IRI()} })
			mk("list[1 obj]", func(g *Gen) ap.Item {
				return ap.ItemCollection{Embedded(ByName("Object"), g, true, true).Interface().(ap.Item)}
			})
			mk("*iris[2]", func(g *Gen) ap.Item { c := ap.IRIs{g.IRI(), g.IRI()}; return &c })
		}
	}
	var lists []Field
	for _, f := range s.ItemFields() {
		if f.Kind == KItems {
			lists = append(lists, f)
		}
	}
	if len(lists) >= 2 {
		// private lists first, so that whatever follows them in the array belongs to another property
		sort.SliceStable(lists, func(i, j int) bool {
			pi, pj := lists[i].Term == "bto" || lists[i].Term == "bcc", lists[j].Term == "bto" || lists[j].Term == "bcc"
			return pi && !pj
		})
		var sets []Set
		var backing ap.ItemCollection
		built := false
		for k, f := range lists {
			k := k
			sets = append(sets, Set{f, Shape{Name: "window", Class: "shared-backing-array", Build: func(g *Gen) reflect.Value {
				if !built || k == 0 {
					backing = make(ap.ItemCollection, 0, 2*len(lists))
					for i := 0; i < 2*len(lists); i++ {
						backing = append(backing, g.IRI())
					}
					built = true
				}
				return val(backing[2*k : 2*k+2])
			}}})
		}
		fn(Recipe{Struct: s, TypeName: s.SpecificName(), Sets: sets})
	}
}

// TypeNames yields, for struct s typed with each of the given vocabulary names, the level-1 values (q shapes) and every pair of
// instant / duration properties: a codec that special-cases one type name, or derives one property from two others, shows here.
func TypeNames(s *Struct, names []string, codec Codec, fn func(Recipe)) {
	var timeFields []Field
	for _, f := range s.PropertyFields() {
		if f.Kind == KTime || f.Kind == KDuration {
			timeFields = append(timeFields, f)
		}
	}
	for _, name := range names {
		name := name
		if name == s.SpecificName() {
			continue // already the name every other family uses
		}
		Level1(s, codec, true, func(r Recipe) {
			r.TypeName = name
			fn(r)
		})
		for i := 0; i < len(timeFields); i++ {
			for j := i + 1; j < len(timeFields); j++ {
				si, sj := ShapesFor(timeFields[i], codec, true), ShapesFor(timeFields[j], codec, true)
				if len(si) == 0 || len(sj) == 0 {
					continue
				}
				// the second instant later than the first, and the other way round
				later := Shape{Name: "later", Class: "time", Build: func(*Gen) reflect.Value { return val(T1.Add(150 * time.Minute)) }}
				a, b := si[0], sj[0]
				if timeFields[j].Kind == KTime {
					b = later
				}
				fn(Recipe{Struct: s, TypeName: name, Sets: []Set{{timeFields[i], a}, {timeFields[j], b}}})
				if timeFields[i].Kind == KTime && timeFields[j].Kind == KTime {
					fn(Recipe{Struct: s, TypeName: name, Sets: []Set{{timeFields[i], later}, {timeFields[j], sj[0]}}})
				}
			}
		}
	}
}

// RelatedIdentity yields values in which an IRI-bearing property is RELATED to the value's own id: equal to it, the id plus a
// query / a fragment / a path segment, or a prefix of the id (the id is the property plus "?page=2").
func RelatedIdentity(s *Struct, fn func(Recipe)) {
	const base = "https://example.com/related/outbox"
	idField := s.Field("ID")
	if idField == nil {
		return
	}
	rel := []struct{ name, id, prop string }{
		{"same-as-id", base, base},
		{"id+query", base, base + "?page=2"},
		{"id+fragment", base, base + "#main-key"},
		{"id+segment", base, base + "/sub"},
		{"prefix-of-id(query)", base + "?page=2", base},
		{"prefix-of-id(fragment)", base + "#part", base},
		{"scheme-variant-of-id", base, "http" + base[len("https"):]},
	}
	for _, f := range s.Fields {
		if f.Kind != KIRI && f.Kind != KItem && f.Kind != KItems {
			continue
		}
		if f.Term == "id" || f.Term == "type" {
			continue
		}
		for _, r := range rel {
			f, r := f, r
			idShape := Shape{Name: "id:" + r.name, Class: "related", Build: func(*Gen) reflect.Value { return val(ap.IRI(r.id)) }}
			propShape := Shape{Name: r.name, Class: "related-" + r.name, Build: func(g *Gen) reflect.Value {
				switch f.Kind {
				case KIRI:
					return val(ap.IRI(r.prop))
				case KItem:
					v := reflect.New(tItem).Elem()
					v.Set(reflect.ValueOf(ap.IRI(r.prop)))
					return v
				}
				return val(ap.ItemCollection{ap.IRI(r.prop), g.IRI()})
			}}
			fn(Recipe{Struct: s, TypeName: s.SpecificName(), NoID: true, Sets: []Set{{*idField, idShape}, {f, propShape}}})
		}
	}
}

// DeepChain yields a value of struct s that embeds, through the given item property, a chain of depth embedded objects, the
// innermost one carrying a marker text.
func DeepChain(s *Struct, via string, depth int) (Recipe, bool) {
	f := s.Field(via)
	if f == nil || (f.Kind != KItem && f.Kind != KItems) {
		return Recipe{}, false
	}
	shape := Shape{Name: fmt.Sprintf("chain[%d]", depth), Class: "deep-chain", Build: func(g *Gen) reflect.Value {
		var inner ap.Item = &ap.Object{ID: g.IRI(), Type: ap.NoteType, Name: nlv("-", "innermost")}
		for d := 1; d < depth; d++ {
			o := &ap.Object{ID: g.IRI(), Type: ap.NoteType}
			if d%2 == 0 {
				o.InReplyTo = inner
			} else {
				o.Attachment = inner
			}
			inner = o
		}
		if f.Kind == KItems {
			return val(ap.ItemCollection{inner})
		}
		v := reflect.New(tItem).Elem()
		v.Set(reflect.ValueOf(inner))
		return v
	}}
	return Recipe{Struct: s, TypeName: s.SpecificName(), Sets: []Set{{*f, shape}}}, true
}

// CollidingIDs returns pairs of different, perfectly ordinary ids that collide under a common 32-bit hash (FNV-1a, FNV-1, CRC-32
// IEEE and Castagnoli, Adler-32, djb2, the 31-multiplier hash) of a common normal form of the id (raw, lower-cased, scheme
// stripped, scheme and fragment stripped). An index, cache or "seen" set keyed by such a hash without comparing the ids treats
// them as one identity. The table is generated by cmd/verif-gencollisions (birthday search) and checked in.
func CollidingIDs() [][2]ap.IRI { return collidingIDs }

// CollidingStrings returns pairs of short strings (shaped like media types) that collide under the same hashes of their bytes.
func CollidingStrings() [][2]string { return collidingStrings }

// Collisions yields values whose list properties hold both members of a CollidingIDs pair (as IRIs, and as IRI + embedded object).
func Collisions(fn func(Recipe)) {
	for _, name := range []string{"Object", "Activity", "OrderedCollection", "Actor"} {
		s := ByName(name)
		for _, f := range s.ItemFields() {
			if f.Kind != KItems {
				continue
			}
			for k, p := range CollidingIDs() {
				f, p, k := f, p, k
				fn(Recipe{Struct: s, TypeName: s.SpecificName(), Sets: []Set{{f, Shape{Name: fmt.Sprintf("colliding#%d", k), Class: "colliding-ids", Build: func(g *Gen) reflect.Value {
					if k%2 == 0 {
						return val(ap.ItemCollection{p[0], g.IRI(), p[1]})
					}
					return val(ap.ItemCollection{p[0], &ap.Object{ID: p[1], Type: ap.NoteType}})
				}}}}})
			}
		}
	}
}
