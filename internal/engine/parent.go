package engine

import (
	"bufio"
	"bytes"
	"crypto/sha1"
	"encoding/binary"
	"encoding/json"
	"flag"
	"fmt"
	"io"
	"os"
	"os/exec"
	"path/filepath"
	"regexp"
	"sort"
	"strconv"
	"strings"
	"sync"
	"time"
)

// Parent is the coordinating process of one check run.
type Parent struct {
	Check *Check
	Tier  string
	Root  string // /verif
	Seed  int64

	mu           sync.Mutex
	failures     []Failure
	preFails     []Failure // failures produced by Pre/Post (deterministic analyses; not re-run 5x by the engine)
	Extra        map[string]any
	Notes        []string
	agg          stats
	hashFiles    []string
	notExh       bool
	hashedStates int64
	harness      []string
}

// AddFailure lets Pre/Post report failures found by parent-side analyses.
func (p *Parent) AddFailure(f Failure) {
	p.mu.Lock()
	p.preFails = append(p.preFails, f)
	p.mu.Unlock()
}

// BuildDir is a scratch directory under /verif/.build for this check.
func (p *Parent) BuildDir() string {
	d := filepath.Join(p.Root, ".build", p.Check.ID)
	os.MkdirAll(d, 0o755)
	return d
}

// NotExhaustive marks the run as not exhaustive (a cap or deadline was hit).
func (p *Parent) NotExhaustive(why string) {
	p.notExh = true
	p.Notes = append(p.Notes, why)
}

// Main is the entry point of cmd/verif-check.
func Main() {
	if len(os.Args) < 2 {
		fmt.Fprintf(os.Stderr, "usage: verif-check <%s> [--tier quick|thorough] [--replay file]\n", strings.Join(IDs(), "|"))
		os.Exit(2)
	}
	id := os.Args[1]
	ch := Lookup(id)
	if ch == nil {
		fmt.Fprintf(os.Stderr, "unknown check %q (have %v)\n", id, IDs())
		os.Exit(2)
	}
	fs := flag.NewFlagSet(id, flag.ExitOnError)
	tier := fs.String("tier", envOr("VERIF_TIER", "quick"), "quick|thorough")
	replay := fs.String("replay", "", "replay file")
	worker := fs.Bool("worker", false, "internal")
	shard := fs.Int("shard", 0, "internal")
	nshards := fs.Int("nshards", 1, "internal")
	only := fs.Int64("only", -1, "internal")
	start := fs.Int64("start", 0, "internal")
	journal := fs.Bool("journal", false, "internal")
	hashfile := fs.String("hashfile", "", "internal")
	deadline := fs.Duration("deadline", 0, "internal")
	onlyset := fs.String("onlyset", "", "internal: comma separated case indices")
	fs.Parse(os.Args[2:])
	if *tier != "quick" && *tier != "thorough" {
		*tier = "quick"
	}
	if *worker {
		var set map[int64]bool
		if *onlyset != "" {
			set = map[int64]bool{}
			for _, x := range strings.Split(*onlyset, ",") {
				if v, err := strconv.ParseInt(x, 10, 64); err == nil {
					set[v] = true
				}
			}
		}
		os.Exit(runWorker(ch, workerOpts{onlySet: set, tier: *tier, shard: *shard, nshards: *nshards, only: *only, start: *start,
			journal: *journal, hashFile: *hashfile, deadline: *deadline}))
	}
	root, _ := os.Getwd()
	if r := os.Getenv("VERIF_ROOT"); r != "" {
		root = r
	}
	seed, _ := strconv.ParseInt(os.Getenv("VERIF_SEED"), 10, 64)
	p := &Parent{Check: ch, Tier: *tier, Root: root, Seed: seed, Extra: map[string]any{}}
	if *replay != "" {
		os.Exit(p.replay(*replay))
	}
	os.Exit(p.run())
}

func envOr(k, d string) string {
	if v := os.Getenv(k); v != "" {
		return v
	}
	return d
}

func (p *Parent) workerBinary() string {
	if p.Check.WorkerBinary != nil {
		if b := p.Check.WorkerBinary(p); b != "" {
			return b
		}
	}
	exe, err := os.Executable()
	if err != nil {
		return os.Args[0]
	}
	return exe
}

type workerResult struct {
	failures []Failure
	st       *stats
	lastP    int64
	lastJ    *msg
	xIdx     int64 // watchdog exit index, -1 if none
	exit     int
	stderr   string
}

func (p *Parent) spawn(args []string) workerResult {
	cmd := exec.Command(p.workerBinary(), args...)
	if p.Check.WorkerVMemKB > 0 {
		// hard address-space limit for checks whose cases may blow up memory: sh -c 'ulimit -v N; exec "$0" "$@"' bin args...
		sh := fmt.Sprintf("ulimit -v %d; exec \"$0\" \"$@\"", p.Check.WorkerVMemKB)
		cmd = exec.Command("sh", append([]string{"-c", sh, p.workerBinary()}, args...)...)
	}
	cmd.Env = append(os.Environ(), "GOMAXPROCS=2", "GOTRACEBACK=single")
	cmd.Env = append(cmd.Env, p.Check.WorkerEnv...)
	stdout, _ := cmd.StdoutPipe()
	var errb bytes.Buffer
	cmd.Stderr = &limitWriter{w: &errb, n: 64 << 10}
	res := workerResult{lastP: -1, xIdx: -1}
	if err := cmd.Start(); err != nil {
		res.exit = -1
		res.stderr = err.Error()
		return res
	}
	rd := bufio.NewReaderSize(stdout, 1<<20)
	for {
		line, err := rd.ReadBytes('\n')
		if len(line) > 0 {
			var m msg
			if json.Unmarshal(line, &m) == nil {
				switch m.T {
				case "P":
					res.lastP = m.I
				case "J":
					mm := m
					res.lastJ = &mm
				case "F":
					if m.F != nil {
						res.failures = append(res.failures, *m.F)
					}
				case "X":
					res.xIdx = m.I
				case "S":
					res.st = m.S
				}
			}
		}
		if err != nil {
			break
		}
	}
	err := cmd.Wait()
	if err != nil {
		if ee, ok := err.(*exec.ExitError); ok {
			res.exit = ee.ExitCode()
		} else {
			res.exit = -1
		}
	}
	res.stderr = errb.String()
	return res
}

type limitWriter struct {
	w io.Writer
	n int
}

func (l *limitWriter) Write(b []byte) (int, error) {
	if l.n > 0 {
		k := len(b)
		if k > l.n {
			k = l.n
		}
		l.w.Write(b[:k])
		l.n -= k
	}
	return len(b), nil
}

func (p *Parent) deadline() time.Duration {
	if p.Tier == "thorough" {
		if p.Check.DeadlineThorough > 0 {
			return p.Check.DeadlineThorough
		}
		return 40 * time.Minute
	}
	if p.Check.DeadlineQuick > 0 {
		return p.Check.DeadlineQuick
	}
	return 8 * time.Minute
}

// runShard runs one shard to completion, surviving fatal crashes and watchdog exits of workers.
func (p *Parent) runShard(shard, n int) {
	start := int64(0)
	hashFile := filepath.Join(p.BuildDir(), fmt.Sprintf("hashes-%s-%d.bin", p.Tier, shard))
	os.Remove(hashFile)
	crashes := 0
	for {
		args := []string{p.Check.ID, "--worker", "--tier", p.Tier, "--shard", strconv.Itoa(shard), "--nshards", strconv.Itoa(n),
			"--start", strconv.FormatInt(start, 10), "--hashfile", hashFile, "--deadline", p.deadline().String()}
		res := p.spawn(args)
		p.collect(res)
		if res.st != nil {
			p.mu.Lock()
			if res.st.HashFile != "" {
				p.hashFiles = append(p.hashFiles, res.st.HashFile)
			}
			p.mu.Unlock()
			return
		}
		crashes++
		if crashes > 50 {
			p.mu.Lock()
			p.harness = append(p.harness, fmt.Sprintf("shard %d: more than 50 worker crashes, giving up: %s", shard, tail(res.stderr, 400)))
			p.mu.Unlock()
			return
		}
		if res.xIdx >= 0 { // watchdog exit: failure already reported by the worker
			start = res.xIdx + 1
			continue
		}
		// fatal crash: find the culprit by journalling from the last progress mark
		from := start
		if res.lastP > from {
			from = res.lastP
		}
		jargs := []string{p.Check.ID, "--worker", "--tier", p.Tier, "--shard", strconv.Itoa(shard), "--nshards", strconv.Itoa(n),
			"--start", strconv.FormatInt(from, 10), "--journal"}
		jres := p.spawn(jargs)
		if jres.st != nil || jres.lastJ == nil {
			// did not crash again (or crashed before the first case): not reproducible => machinery problem
			p.collect(jres)
			p.mu.Lock()
			p.harness = append(p.harness, fmt.Sprintf("shard %d: worker died (exit %d) but the crash did not reproduce under journalling: %s",
				shard, res.exit, tail(res.stderr, 600)))
			p.mu.Unlock()
			if jres.st != nil {
				return
			}
			return
		}
		if jres.xIdx >= 0 {
			p.collect(jres)
			start = jres.xIdx + 1
			continue
		}
		f := Failure{Key: jres.lastJ.C + "|fatal", Class: jres.lastJ.C, Case: jres.lastJ.D, Index: jres.lastJ.I,
			Detail: "worker process died (fatal runtime error, not a recoverable panic):\n" + firstLines(jres.stderr, 12)}
		p.mu.Lock()
		p.failures = append(p.failures, jres.failures...)
		p.failures = append(p.failures, f)
		p.mu.Unlock()
		start = jres.lastJ.I + 1
	}
}

func tail(s string, n int) string {
	if len(s) > n {
		return "…" + s[len(s)-n:]
	}
	return s
}

func firstLines(s string, n int) string {
	l := strings.Split(s, "\n")
	if len(l) > n {
		l = l[:n]
	}
	return strings.Join(l, "\n")
}

func (p *Parent) collect(res workerResult) {
	p.mu.Lock()
	defer p.mu.Unlock()
	p.failures = append(p.failures, res.failures...)
	if res.st != nil {
		s := res.st
		p.agg.Evals += s.Evals
		p.agg.Ops += s.Ops
		p.agg.Nontrivial += s.Nontrivial
		p.agg.Distinct += s.Distinct
		if s.Cases > p.agg.Cases {
			p.agg.Cases = s.Cases
		}
		if len(p.agg.Samples) < 8 {
			for _, x := range s.Samples {
				if len(p.agg.Samples) < 8 {
					p.agg.Samples = append(p.agg.Samples, x)
				}
			}
		}
		if p.agg.Outcomes == nil {
			p.agg.Outcomes = map[string]int64{}
			p.agg.Extra = map[string]int64{}
		}
		for k, v := range s.Outcomes {
			p.agg.Outcomes[k] += v
		}
		for k, v := range s.Extra {
			p.agg.Extra[k] += v
		}
		if s.DeadlineHit {
			p.agg.DeadlineHit = true
			if p.agg.Completed == 0 || s.Completed < p.agg.Completed {
				p.agg.Completed = s.Completed
			}
		}
	}
}

func (p *Parent) mergeHashes() (distinct, nontrivial int64) {
	set := map[uint64]struct{}{}
	for _, f := range p.hashFiles {
		b, err := os.ReadFile(f)
		if err != nil {
			continue
		}
		for i := 0; i+8 <= len(b); i += 8 {
			set[binary.LittleEndian.Uint64(b[i:])] = struct{}{}
		}
		os.Remove(f)
	}
	for h := range set {
		nontrivial += int64(h & 1)
	}
	return int64(len(set)), nontrivial
}

// KnownFinding is one line of known-findings.jsonl.
type KnownFinding struct {
	Property string `json:"property"`
	Key      string `json:"key"`
	What     string `json:"what"`
	Status   string `json:"status"` // open | fixed
	Commit   string `json:"commit,omitempty"`
	re       *regexp.Regexp
}

func loadKnown(root, prop string) ([]*KnownFinding, error) {
	f, err := os.Open(filepath.Join(root, "known-findings.jsonl"))
	if err != nil {
		if os.IsNotExist(err) {
			return nil, nil
		}
		return nil, err
	}
	defer f.Close()
	var out []*KnownFinding
	sc := bufio.NewScanner(f)
	sc.Buffer(make([]byte, 1<<20), 1<<20)
	for sc.Scan() {
		line := strings.TrimSpace(sc.Text())
		if line == "" || strings.HasPrefix(line, "#") || strings.HasPrefix(line, "fixed:") {
			continue
		}
		var k KnownFinding
		if err := json.Unmarshal([]byte(line), &k); err != nil {
			return nil, fmt.Errorf("known-findings.jsonl: %v in %q", err, line)
		}
		if k.Property != prop || k.Status != "open" {
			continue
		}
		k.re = globToRegexp(k.Key)
		out = append(out, &k)
	}
	return out, sc.Err()
}

func globToRegexp(g string) *regexp.Regexp {
	var b strings.Builder
	b.WriteString("^")
	for _, part := range strings.Split(g, "*") {
		b.WriteString(regexp.QuoteMeta(part))
		b.WriteString(".*")
	}
	s := strings.TrimSuffix(b.String(), ".*") + "$"
	return regexp.MustCompile(s)
}

func (p *Parent) run() int {
	t0 := time.Now()
	known, err := loadKnown(p.Root, p.Check.ID)
	if err != nil {
		fmt.Fprintln(os.Stderr, "HARNESS-ERROR:", err)
		return 2
	}
	if p.Check.Pre != nil {
		if err := p.Check.Pre(p); err != nil {
			fmt.Fprintln(os.Stderr, "HARNESS-ERROR: pre:", err)
			return 2
		}
	}
	if p.Check.Run != nil {
		n := p.Check.Shards
		if n <= 0 {
			n = 16
		}
		var wg sync.WaitGroup
		for s := 0; s < n; s++ {
			wg.Add(1)
			go func(s int) {
				defer wg.Done()
				p.runShard(s, n)
			}(s)
		}
		wg.Wait()
	}
	if p.Check.Post != nil {
		if err := p.Check.Post(p); err != nil {
			fmt.Fprintln(os.Stderr, "HARNESS-ERROR: post:", err)
			return 2
		}
	}
	hd, hn := p.mergeHashes()
	p.hashedStates = hd
	p.agg.Distinct += hd
	p.agg.Nontrivial += hn

	// group failures by key
	byKey := map[string][]Failure{}
	for _, f := range p.failures {
		byKey[f.Key] = append(byKey[f.Key], f)
	}
	keys := make([]string, 0, len(byKey))
	for k := range byKey {
		sort.Slice(byKey[k], func(i, j int) bool { return byKey[k][i].Index < byKey[k][j].Index })
		keys = append(keys, k)
	}
	sort.Strings(keys)

	// believe a failure only after it reproduced 5/5 in fresh processes: five fresh workers each re-run
	// the first failing case of every key (fatal keys are re-run one process per case)
	confirmed := map[string]Failure{}
	okCount := map[string]int{}
	var idxs []string
	// a case that kills its worker (a fatal error, or the watchdog after a hang) would take the rest of a batch with it:
	// such keys are re-run one process per case
	alone := func(k string) bool { return strings.HasSuffix(k, "|fatal") || strings.HasSuffix(k, "|no-termination") }
	for _, k := range keys {
		if !alone(k) {
			idxs = append(idxs, strconv.FormatInt(byKey[k][0].Index, 10))
		}
	}
	var cmu sync.Mutex
	var wg sync.WaitGroup
	for rep := 0; rep < 5; rep++ {
		wg.Add(1)
		go func() {
			defer wg.Done()
			seen := map[string]bool{}
			for lo := 0; lo < len(idxs); lo += 2000 {
				hi := lo + 2000
				if hi > len(idxs) {
					hi = len(idxs)
				}
				res := p.spawn([]string{p.Check.ID, "--worker", "--tier", p.Tier, "--onlyset", strings.Join(idxs[lo:hi], ",")})
				for _, g := range res.failures {
					seen[g.Key] = true
				}
			}
			cmu.Lock()
			for k := range seen {
				okCount[k]++
			}
			cmu.Unlock()
		}()
	}
	for _, k := range keys {
		if alone(k) {
			wg.Add(1)
			go func(k string) {
				defer wg.Done()
				n := 0
				for rep := 0; rep < 5; rep++ {
					if p.reproduces(byKey[k][0]) {
						n++
					}
				}
				cmu.Lock()
				okCount[k] = n
				cmu.Unlock()
			}(k)
		}
	}
	wg.Wait()
	for _, k := range keys {
		if okCount[k] == 5 {
			confirmed[k] = byKey[k][0]
		} else {
			p.harness = append(p.harness, fmt.Sprintf("key %q (case #%d) reproduced %d/5 times", k, byKey[k][0].Index, okCount[k]))
		}
	}
	for _, f := range p.preFails {
		byKey[f.Key] = append(byKey[f.Key], f)
		if _, ok := confirmed[f.Key]; !ok {
			confirmed[f.Key] = f
			keys = append(keys, f.Key)
		}
	}
	sort.Strings(keys)

	matched := map[*KnownFinding]int{}
	var unmatched []Failure
	knownKeys := 0
	for _, k := range keys {
		f, ok := confirmed[k]
		if !ok {
			continue
		}
		hit := false
		for _, kf := range known {
			if kf.re.MatchString(k) {
				matched[kf]++
				hit = true
			}
		}
		if hit {
			knownKeys++
		} else {
			f.Count = int64(len(byKey[k]))
			unmatched = append(unmatched, f)
		}
	}
	var matchedKeys []string
	for _, kf := range known {
		if matched[kf] > 0 {
			fmt.Printf("KNOWN-FINDING: property=%s %s [key %s; %d finding key(s) matched]\n", p.Check.ID, kf.What, kf.Key, matched[kf])
			matchedKeys = append(matchedKeys, kf.Key)
		}
	}
	exit := 0
	replayDir := filepath.Join(p.Root, "replays", p.Check.ID)
	os.RemoveAll(replayDir)
	shown := 0
	for _, f := range unmatched {
		exit = 1
		os.MkdirAll(replayDir, 0o755)
		sum := sha1.Sum([]byte(f.Key))
		path := filepath.Join(replayDir, fmt.Sprintf("%x.json", sum[:6]))
		rf := map[string]any{"property": p.Check.ID, "check": p.Check.Name, "tier": p.Tier, "index": f.Index, "key": f.Key,
			"class": f.Class, "case": f.Case, "detail": f.Detail,
			"replay_cmd": fmt.Sprintf("./run.sh %s --replay %s", p.Check.ID, path)}
		b, _ := json.MarshalIndent(rf, "", " ")
		os.WriteFile(path, b, 0o644)
		if shown < 40 {
			fmt.Printf("VIOLATION property=%s replay=%s\n", p.Check.ID, path)
			fmt.Printf("  key:  %s\n  case: %s\n  what: %s\n", f.Key, oneLine(f.Case, 300), oneLine(f.Detail, 600))
		}
		shown++
	}
	if shown > 40 {
		fmt.Printf("… %d further violating keys (replay files written under %s)\n", shown-40, replayDir)
	}
	if len(p.harness) > 0 {
		for _, h := range p.harness {
			fmt.Printf("HARNESS-NONDETERMINISM: %s\n", h)
		}
		if exit == 0 {
			exit = 2
		}
	}
	p.writeEvidence(time.Since(t0), len(unmatched), matchedKeys, keys)
	exh := !p.agg.DeadlineHit && !p.notExh
	fmt.Printf("%s %s: cases=%d evaluations=%d distinct=%d nontrivial=%d transitions=%d failing_keys=%d known=%d not_reproduced=%d violations=%d exhaustive=%v wall=%.1fs\n",
		p.Check.ID, p.Tier, p.agg.Cases, p.agg.Evals, p.agg.Distinct, p.agg.Nontrivial, p.agg.Ops, len(keys), knownKeys, len(p.harness), len(unmatched), exh, time.Since(t0).Seconds())
	return exit
}

func oneLine(s string, n int) string {
	s = strings.ReplaceAll(s, "\n", " ⏎ ")
	if len(s) > n {
		s = s[:n] + "…"
	}
	return s
}

// reproduces re-runs one case in a fresh process and reports whether the same key fails again.
func (p *Parent) reproduces(f Failure) bool {
	if strings.HasSuffix(f.Key, "|fatal") {
		res := p.spawn([]string{p.Check.ID, "--worker", "--tier", p.Tier, "--only", strconv.FormatInt(f.Index, 10), "--journal"})
		return res.st == nil && res.xIdx < 0
	}
	res := p.spawn([]string{p.Check.ID, "--worker", "--tier", p.Tier, "--only", strconv.FormatInt(f.Index, 10)})
	for _, g := range res.failures {
		if g.Key == f.Key {
			return true
		}
	}
	return false
}

func (p *Parent) replay(path string) int {
	b, err := os.ReadFile(path)
	if err != nil {
		fmt.Fprintln(os.Stderr, err)
		return 2
	}
	var rf struct {
		Tier  string `json:"tier"`
		Index int64  `json:"index"`
		Key   string `json:"key"`
		Case  string `json:"case"`
	}
	if err := json.Unmarshal(b, &rf); err != nil {
		fmt.Fprintln(os.Stderr, err)
		return 2
	}
	p.Tier = rf.Tier
	if p.Check.Pre != nil {
		if err := p.Check.Pre(p); err != nil {
			fmt.Fprintln(os.Stderr, "HARNESS-ERROR: pre:", err)
			return 2
		}
	}
	for _, f := range p.preFails {
		if f.Key == rf.Key {
			fmt.Printf("VIOLATION property=%s replay=%s\n  key: %s\n  case: %s\n  what: %s\n", p.Check.ID, path, f.Key, f.Case, f.Detail)
			return 1
		}
	}
	if p.Check.Run == nil {
		fmt.Printf("replay: key %s no longer fails\n", rf.Key)
		return 0
	}
	res := p.spawn([]string{p.Check.ID, "--worker", "--tier", rf.Tier, "--only", strconv.FormatInt(rf.Index, 10), "--journal"})
	if res.lastJ != nil && res.lastJ.D != rf.Case {
		fmt.Printf("replay: case #%d of the current tree is %q, the file describes %q — the enumeration changed (different tree?)\n", rf.Index, res.lastJ.D, rf.Case)
	}
	if res.st == nil && res.xIdx < 0 {
		fmt.Printf("VIOLATION property=%s replay=%s\n  key: %s\n  worker died: %s\n", p.Check.ID, path, rf.Key, firstLines(res.stderr, 12))
		return 1
	}
	bad := 0
	for _, f := range res.failures {
		fmt.Printf("VIOLATION property=%s replay=%s\n  key: %s\n  case: %s\n  what: %s\n", p.Check.ID, path, f.Key, f.Case, f.Detail)
		bad++
	}
	if bad > 0 {
		return 1
	}
	fmt.Printf("replay: case #%d passes on the current tree\n", rf.Index)
	return 0
}

func (p *Parent) writeEvidence(wall time.Duration, violations int, matchedKeys, failingKeys []string) {
	exh := !p.agg.DeadlineHit && !p.notExh
	samples := make([]any, 0, len(p.agg.Samples))
	for _, s := range p.agg.Samples {
		samples = append(samples, s)
	}
	if len(samples) == 0 {
		samples = append(samples, "(no worker cases; see coverage.extra)")
	}
	states := p.agg.Distinct
	if p.hashedStates > 0 {
		// checks that hash canonical states report those as "states"; cases that are distinct by construction
		// (histories, grid pairs) are the evaluations
		states = p.hashedStates
	}
	if states < 1 {
		states = 1
	}
	trans := p.agg.Ops
	if trans < p.agg.Evals {
		trans = p.agg.Evals
	}
	if trans < 1 {
		trans = 1
	}
	evals := p.agg.Evals
	cov := map[string]any{
		"states":                        states,
		"transitions":                   trans,
		"traces_validated_against_impl": evals,
		"evaluations":                   evals,
		"distinct_nontrivial":           p.agg.Nontrivial,
		"rule":                          p.Check.Rule,
		"samples":                       samples,
		"exhaustive":                    exh,
		"bound_completed":               p.Check.Bound(p.Tier),
		"cases_in_enumeration":          p.agg.Cases,
		"distinct_cases_total":          p.agg.Distinct,
		"distinct_states_hashed":        p.hashedStates,
		"outcomes":                      p.agg.Outcomes,
		"counters":                      p.agg.Extra,
		"failing_keys":                  len(failingKeys),
		"known_findings_matched":        matchedKeys,
		"explanation": "bounded-exhaustive enumeration executed on the real library (no model/implementation gap): every enumerated case is one trace " +
			"validated against the reference oracle on the implementation",
	}
	if p.agg.DeadlineHit {
		cov["deadline_hit_completed_prefix"] = p.agg.Completed
	}
	for k, v := range p.Extra {
		cov[k] = v
	}
	if len(p.Notes) > 0 {
		cov["notes"] = p.Notes
	}
	ev := map[string]any{
		"property_id": p.Check.ID,
		"tier":        p.Tier,
		"seed":        p.Seed,
		"level":       p.Check.Level,
		"coverage":    cov,
		"assumptions": p.Check.Assumptions,
		"wall_s":      wall.Seconds(),
		"violations":  violations,
	}
	b, _ := json.MarshalIndent(ev, "", " ")
	dir := filepath.Join(p.Root, "evidence")
	os.MkdirAll(dir, 0o755)
	os.WriteFile(filepath.Join(dir, p.Check.ID+".json"), append(b, '\n'), 0o644)
}
