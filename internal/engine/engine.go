// Package engine is the shared bounded-exhaustive explorer: a check enumerates a finite,
// explicitly described case space in a deterministic order; the engine shards that
// enumeration over worker processes (index mod N), runs every case on the real library
// under recover + a hang watchdog, attributes fatal crashes to the case that caused them,
// re-executes every failing key 5x in fresh processes before believing it, matches finding
// keys against /verif/known-findings.jsonl, and writes the evidence file.
//
// Nothing here samples: VERIF_SEED is recorded and otherwise ignored.
package engine

import (
	"bufio"
	"encoding/binary"
	"encoding/json"
	"fmt"
	"hash/fnv"
	"os"
	"runtime/debug"
	"runtime/pprof"
	"sort"
	"strings"
	"sync"
	"sync/atomic"
	"time"
)

// Failure is one failing case.
type Failure struct {
	Key    string `json:"key"`    // finding key: Cxx|check|type|path|shape|symptom
	Class  string `json:"class"`  // key prefix of the case (used when the case dies fatally)
	Case   string `json:"case"`   // self-contained description of the case
	Detail string `json:"detail"` // expected vs observed
	Index  int64  `json:"index"`  // position in the deterministic enumeration
	Count  int64  `json:"count,omitempty"`
}

// Check describes one property check.
type Check struct {
	ID          string
	Name        string
	Level       string // evidence level
	Rule        string
	Assumptions []string
	// Bound describes the bound explored per tier (goes to the evidence).
	Bound func(tier string) string
	// Run enumerates all cases of the tier by calling c.Do for each, in a deterministic order.
	Run func(c *Ctx)
	// Pre runs in the parent before the workers (builds, static analyses). Optional.
	Pre func(p *Parent) error
	// Post runs in the parent after the workers. Optional.
	Post func(p *Parent) error
	// Shards overrides the number of worker processes (0 = default 16).
	Shards int
	// WorkerEnv is added to the environment of workers.
	WorkerEnv []string
	// WorkerBinary, when set, returns the binary that workers should be started from
	// (e.g. an instrumented or checkptr build produced by Pre). Default: os.Args[0].
	WorkerBinary func(p *Parent) string
	// DeadlineQuick / DeadlineThorough bound the wall time of the enumeration; reaching it
	// never produces a violation, only exhaustive:false.
	DeadlineQuick, DeadlineThorough time.Duration
	// WorkerVMemKB, when > 0, limits the virtual memory of each worker process (ulimit -v).
	WorkerVMemKB int64
	// HangSeconds is the per-case watchdog (default 30).
	HangSeconds int
}

var registry = map[string]*Check{}

func Register(c *Check) {
	if _, dup := registry[c.ID]; dup {
		panic("duplicate check " + c.ID)
	}
	registry[c.ID] = c
}

func Lookup(id string) *Check { return registry[id] }

func IDs() []string {
	var ids []string
	for k := range registry {
		ids = append(ids, k)
	}
	sort.Strings(ids)
	return ids
}

// ---------------------------------------------------------------------------------------
// worker side

// Ctx is handed to Check.Run inside a worker process.
type Ctx struct {
	Tier    string
	Shard   int
	NShards int

	only     int64 // -1: all
	onlySet  map[int64]bool
	doCount  int64
	lastMark time.Time
	start    int64
	journal  bool
	idx      int64

	evals, ops, nontrivial, distinctByConstruction int64
	hashes                                         map[uint64]struct{}
	samples                                        []string
	outcomes                                       map[string]int64
	perKey                                         map[string]int64
	extra                                          map[string]int64
	deadline                                       time.Time
	deadlineHit                                    bool
	completed                                      int64

	mu  sync.Mutex
	out *bufio.Writer

	curStart atomic.Int64 // unix nano of current case start, 0 = idle
	curIdx   atomic.Int64
	curClass atomic.Value
	curDesc  atomic.Value
	hang     time.Duration
}

// T is handed to the body of one case.
type T struct {
	c      *Ctx
	class  string
	desc   func() string
	failed bool
}

type msg struct {
	T string   `json:"t"`
	I int64    `json:"i,omitempty"`
	F *Failure `json:"f,omitempty"`
	S *stats   `json:"s,omitempty"`
	D string   `json:"d,omitempty"`
	C string   `json:"c,omitempty"`
}

type stats struct {
	Evals       int64            `json:"evals"`
	Ops         int64            `json:"ops"`
	Nontrivial  int64            `json:"nontrivial"`
	Distinct    int64            `json:"distinct"`
	Cases       int64            `json:"cases"`
	Samples     []string         `json:"samples"`
	Outcomes    map[string]int64 `json:"outcomes"`
	Extra       map[string]int64 `json:"extra"`
	DeadlineHit bool             `json:"deadline_hit"`
	Completed   int64            `json:"completed"`
	HashFile    string           `json:"hash_file"`
}

func (c *Ctx) emit(m msg) {
	c.mu.Lock()
	defer c.mu.Unlock()
	b, _ := json.Marshal(m)
	c.out.Write(b)
	c.out.WriteByte('\n')
	if m.T != "F" {
		c.out.Flush()
	}
}

// Quick reports whether the tier is "quick".
func (c *Ctx) Quick() bool { return c.Tier != "thorough" }

// Stopped tells enumerators that the tier deadline was reached (they may return early).
func (c *Ctx) Stopped() bool { return c.deadlineHit }

// Skip advances the enumeration by n cases without running them. It lets an enumerator
// avoid building big sub-spaces that belong to other shards only when it knows the sub-space
// size; all shards must call it identically.
func (c *Ctx) Skip(n int64) { c.idx += n }

// Do registers one case. class is the finding-key prefix of the case (no literal values),
// desc builds the self-contained description lazily, fn runs the case on the real code.
func (c *Ctx) Do(class string, desc func() string, fn func(t *T)) {
	i := c.idx
	c.idx++
	if c.deadlineHit {
		return
	}
	if c.onlySet != nil {
		if !c.onlySet[i] {
			return
		}
	} else if c.only >= 0 {
		if i != c.only {
			return
		}
	} else {
		if i < c.start || int(i%int64(c.NShards)) != c.Shard {
			return
		}
		c.doCount++
		if c.doCount&63 == 0 || time.Since(c.lastMark) > 2*time.Second {
			c.lastMark = time.Now()
			if !c.deadline.IsZero() && c.lastMark.After(c.deadline) {
				c.deadlineHit = true
				c.completed = i
				return
			}
			if c.evals > 0 {
				c.emit(msg{T: "P", I: i})
			}
		}
	}
	if c.journal {
		c.emit(msg{T: "J", I: i, C: class, D: safeDesc(desc)})
	}
	t := &T{c: c, class: class, desc: desc}
	c.curIdx.Store(i)
	c.curClass.Store(class)
	c.curDesc.Store(desc)
	c.curStart.Store(time.Now().UnixNano())
	func() {
		defer func() {
			if r := recover(); r != nil {
				st := string(debug.Stack())
				t.Fail(class+"|panic", "panic: %v\n%s", r, trimStack(st))
			}
		}()
		fn(t)
	}()
	c.curStart.Store(0)
	c.evals++
	if len(c.samples) < 6 && (c.evals == 1 || c.evals%97 == 0 || c.only >= 0) {
		c.samples = append(c.samples, safeDesc(desc))
	}
}

func safeDesc(desc func() string) (s string) {
	defer func() {
		if r := recover(); r != nil {
			s = fmt.Sprintf("<description panicked: %v>", r)
		}
	}()
	s = desc()
	if len(s) > 1500 {
		s = s[:1500] + "…"
	}
	return s
}

func trimStack(s string) string {
	lines := strings.Split(s, "\n")
	var keep []string
	for _, l := range lines {
		if strings.Contains(l, "github.com/go-ap/activitypub") || strings.Contains(l, "/repo/") {
			keep = append(keep, strings.TrimSpace(l))
			if len(keep) >= 8 {
				break
			}
		}
	}
	return strings.Join(keep, "\n")
}

// Fail records a failure of the current case under finding key `key`.
func (t *T) Fail(key, format string, args ...any) {
	t.failed = true
	c := t.c
	c.perKey[key]++
	if c.perKey[key] > 2 && c.only < 0 && c.onlySet == nil {
		return
	}
	d := fmt.Sprintf(format, args...)
	if len(d) > 4000 {
		d = d[:4000] + "…"
	}
	c.emit(msg{T: "F", F: &Failure{Key: key, Class: t.class, Case: safeDesc(t.desc), Detail: d, Index: c.curIdx.Load()}})
}

// Step marks the start of one sub-step of a batched case. In journal mode (used to attribute a fatal crash of the worker)
// the sub-step description is written out before the step runs, so that the crash report names the exact input.
func (t *T) Step(note func() string) {
	if t.c.journal && note != nil {
		t.c.emit(msg{T: "J", I: t.c.curIdx.Load(), C: t.class, D: safeDesc(t.desc) + " :: " + safeDesc(note)})
	}
	t.c.curStart.Store(time.Now().UnixNano())
}

// Expired reports whether the tier deadline has passed; a long case polls it and returns early. The case then counts as not
// completed: the evidence reports exhaustive=false and the index of the first case that was not run to its end.
func (t *T) Expired() bool {
	c := t.c
	if c.deadline.IsZero() {
		return false
	}
	if c.deadlineHit {
		return true
	}
	if time.Now().After(c.deadline) {
		c.deadlineHit = true
		c.completed = c.curIdx.Load()
		return true
	}
	return false
}

// Failed reports whether Fail was called for this case.
func (t *T) Failed() bool { return t.failed }

// Ops counts library operations executed (transitions).
func (t *T) Ops(n int) { t.c.ops += int64(n) }

// State records the canonical hash of the case/state and whether it is non-trivial.
func (t *T) State(h uint64, nontrivial bool) {
	// the low bit carries the non-trivial flag so that the parent can count exactly after merging
	h &^= 1
	if nontrivial {
		h |= 1
	}
	t.c.hashes[h] = struct{}{}
}

// Distinct records a case that is distinct by construction of the enumeration.
func (t *T) Distinct(nontrivial bool) {
	t.c.distinctByConstruction++
	if nontrivial {
		t.c.nontrivial++
	}
}

// AddEvals accounts for n further evaluations performed inside this case (sub-cases that are distinct by
// construction, e.g. the pairs of one row of a grid); nontrivial of them are non-trivial.
func (t *T) AddEvals(n, nontrivial int64) {
	t.c.evals += n
	t.c.distinctByConstruction += n
	t.c.nontrivial += nontrivial
}

// Outcome counts a named outcome (how many cases ended which way).
func (t *T) Outcome(label string) { t.c.outcomes[label]++ }

// Count adds to a named extra counter of the evidence.
func (t *T) Count(name string, n int64) { t.c.extra[name] += n }

// Count adds to a named extra counter from outside a case.
func (c *Ctx) Count(name string, n int64) { c.extra[name] += n }

// Hash64 is a convenience FNV-1a hash.
func Hash64(parts ...string) uint64 {
	h := fnv.New64a()
	for _, p := range parts {
		h.Write([]byte(p))
		h.Write([]byte{0})
	}
	return h.Sum64()
}

type workerOpts struct {
	tier     string
	shard    int
	nshards  int
	only     int64
	start    int64
	journal  bool
	deadline time.Duration
	hashFile string
	onlySet  map[int64]bool
}

func runWorker(ch *Check, o workerOpts) int {
	c := &Ctx{
		Tier: o.tier, Shard: o.shard, NShards: o.nshards, only: o.only, onlySet: o.onlySet, start: o.start, journal: o.journal,
		hashes: map[uint64]struct{}{}, outcomes: map[string]int64{}, perKey: map[string]int64{}, extra: map[string]int64{},
		out: bufio.NewWriterSize(os.Stdout, 1<<16),
	}
	c.hang = 30 * time.Second
	if ch.HangSeconds > 0 {
		c.hang = time.Duration(ch.HangSeconds) * time.Second
	}
	if o.deadline > 0 && o.only < 0 && o.onlySet == nil {
		c.deadline = time.Now().Add(o.deadline)
	}
	// hang watchdog: the only timer that can produce a failure; margin is 4-7 orders of magnitude.
	go func() {
		for {
			time.Sleep(500 * time.Millisecond)
			st := c.curStart.Load()
			if st != 0 && time.Since(time.Unix(0, st)) > c.hang {
				class, _ := c.curClass.Load().(string)
				desc, _ := c.curDesc.Load().(func() string)
				d := "<unknown>"
				if desc != nil {
					d = safeDesc(desc)
				}
				i := c.curIdx.Load()
				c.emit(msg{T: "F", F: &Failure{Key: class + "|no-termination", Class: class, Case: d,
					Detail: fmt.Sprintf("case did not return within %s", c.hang), Index: i}})
				c.emit(msg{T: "X", I: i})
				os.Exit(3)
			}
		}
	}()
	if pf := os.Getenv("VERIF_CPUPROFILE"); pf != "" {
		if f, err := os.Create(pf); err == nil {
			pprof.StartCPUProfile(f)
			defer pprof.StopCPUProfile()
		}
	}
	ch.Run(c)
	if !c.deadlineHit {
		c.completed = c.idx
	}
	hashedNontrivial := int64(0)
	for h := range c.hashes {
		hashedNontrivial += int64(h & 1)
	}
	st := &stats{Evals: c.evals, Ops: c.ops, Nontrivial: c.nontrivial + hashedNontrivial, Distinct: c.distinctByConstruction + int64(len(c.hashes)),
		Cases: c.idx, Samples: c.samples, Outcomes: c.outcomes, Extra: c.extra, DeadlineHit: c.deadlineHit, Completed: c.completed}
	if o.hashFile != "" && len(c.hashes) > 0 {
		f, err := os.Create(o.hashFile)
		if err == nil {
			w := bufio.NewWriter(f)
			var b [8]byte
			for h := range c.hashes {
				binary.LittleEndian.PutUint64(b[:], h)
				w.Write(b[:])
			}
			w.Flush()
			f.Close()
			st.HashFile = o.hashFile
			st.Distinct = c.distinctByConstruction
			st.Nontrivial = c.nontrivial
		}
	}
	c.emit(msg{T: "S", S: st})
	return 0
}
