// Package sites enumerates every pointer-reinterpreting conversion (*T)(unsafe.Pointer(x)) in the
// non-test files of /repo (type-checked offline against the export data of the dependencies) and
// evaluates the layout invariant at every (site, field) state (DESIGN.md §3 C08, engine E4).
package sites

import (
	"bytes"
	"encoding/json"
	"fmt"
	"go/ast"
	"go/importer"
	"go/parser"
	"go/token"
	"go/types"
	"io"
	"os"
	"os/exec"
	"path/filepath"
	"sort"
	"strings"
)

// Site is one conversion site.
type Site struct {
	Pos      string
	Func     string
	From, To string // struct names
	FromPtr  bool   // the operand is a pointer variable (false: address of a local copy)
	Problems []Problem
	Fields   int // number of (site, field) states evaluated
}

type Problem struct {
	Kind   string // size | field-count | field-name | field-type | field-offset
	Field  string
	Detail string
}

// Result of the static analysis.
type Result struct {
	Sites        []Site
	OtherUnsafe  []string // other uses of package unsafe, listed but not judged
	TermProblems []string // shared jsonld terms that sit at different indices in two vocabulary structs
	Structs      map[string]*types.Struct
	States       int
}

type listed struct {
	ImportPath string
	Export     string
}

// Analyze type-checks repoDir (package github.com/go-ap/activitypub) and evaluates all sites. modDir is a module directory
// from which `go list` can resolve the package (the /verif module, whose go.mod replaces it by /repo).
func Analyze(repoDir, modDir string) (*Result, error) {
	cmd := exec.Command("go", "list", "-export", "-deps", "-json=ImportPath,Export", "github.com/go-ap/activitypub")
	cmd.Dir = modDir
	var stderr bytes.Buffer
	cmd.Stderr = &stderr
	out, err := cmd.Output()
	if err != nil {
		return nil, fmt.Errorf("go list: %v: %s", err, stderr.String())
	}
	exports := map[string]string{}
	dec := json.NewDecoder(bytes.NewReader(out))
	for {
		var l listed
		if err := dec.Decode(&l); err == io.EOF {
			break
		} else if err != nil {
			return nil, err
		}
		if l.Export != "" {
			exports[l.ImportPath] = l.Export
		}
	}
	fset := token.NewFileSet()
	names, _ := filepath.Glob(filepath.Join(repoDir, "*.go"))
	sort.Strings(names)
	var files []*ast.File
	for _, n := range names {
		if strings.HasSuffix(n, "_test.go") {
			continue
		}
		f, err := parser.ParseFile(fset, n, nil, 0)
		if err != nil {
			return nil, err
		}
		files = append(files, f)
	}
	lookup := func(path string) (io.ReadCloser, error) {
		e, ok := exports[path]
		if !ok {
			return nil, fmt.Errorf("no export data for %q", path)
		}
		return os.Open(e)
	}
	sizes := types.SizesFor("gc", "amd64")
	conf := types.Config{Importer: importer.ForCompiler(fset, "gc", lookup), Sizes: sizes}
	info := &types.Info{Types: map[ast.Expr]types.TypeAndValue{}, Uses: map[*ast.Ident]types.Object{}}
	pkg, err := conf.Check("github.com/go-ap/activitypub", fset, files, info)
	if err != nil {
		return nil, fmt.Errorf("type check: %v", err)
	}
	res := &Result{Structs: map[string]*types.Struct{}}
	for _, n := range pkg.Scope().Names() {
		if tn, ok := pkg.Scope().Lookup(n).(*types.TypeName); ok && !tn.IsAlias() {
			if st, ok := tn.Type().Underlying().(*types.Struct); ok {
				res.Structs[n] = st
			}
		}
	}
	isUnsafePointer := func(t types.Type) bool {
		b, ok := t.Underlying().(*types.Basic)
		return ok && b.Kind() == types.UnsafePointer
	}
	structOf := func(t types.Type) (string, *types.Struct, bool) {
		ptr := false
		if p, ok := t.Underlying().(*types.Pointer); ok {
			t, ptr = p.Elem(), true
		}
		name := t.String()
		if nt, ok := t.(*types.Named); ok {
			name = nt.Obj().Name()
		}
		st, _ := t.Underlying().(*types.Struct)
		return name, st, ptr
	}
	for _, f := range files {
		var fn string
		ast.Inspect(f, func(n ast.Node) bool {
			switch x := n.(type) {
			case *ast.FuncDecl:
				fn = x.Name.Name
			case *ast.SelectorExpr:
				if id, ok := x.X.(*ast.Ident); ok {
					if pn, ok := info.Uses[id].(*types.PkgName); ok && pn.Imported().Path() == "unsafe" && x.Sel.Name != "Pointer" {
						res.OtherUnsafe = append(res.OtherUnsafe, fmt.Sprintf("%s: unsafe.%s in %s", fset.Position(x.Pos()), x.Sel.Name, fn))
					}
				}
			case *ast.CallExpr:
				tv, ok := info.Types[x.Fun]
				if !ok || !tv.IsType() || len(x.Args) != 1 {
					return true
				}
				// unsafe.Pointer(<integer>): valid only as pointer arithmetic written in ONE expression, unsafe.Pointer(uintptr(p) + off).
				// A pointer that went through an integer variable (the "noescape" trick) is invisible to escape analysis and to the
				// collector: a view made from it may refer to a frame that is gone, i.e. to memory that is not part of the value.
				if isUnsafePointer(tv.Type) {
					if at, ok := info.Types[x.Args[0]]; ok {
						if b, ok := at.Type.Underlying().(*types.Basic); ok && b.Kind() == types.Uintptr && !pointerArithmetic(info, x.Args[0]) {
							res.Sites = append(res.Sites, Site{Pos: fset.Position(x.Pos()).String(), Func: fn, From: "uintptr", To: "unsafe.Pointer",
								Problems: []Problem{{"pointer-from-integer", fn, "unsafe.Pointer(<uintptr value>) in " + fn + ": the pointer went through an integer, so neither escape analysis nor the collector knows what it refers to; a view made from it can outlive the memory it points at"}}})
						}
					}
					return true
				}
				inner, ok := x.Args[0].(*ast.CallExpr)
				if !ok || len(inner.Args) != 1 {
					// a conversion from an unsafe.Pointer variable: listed, not judged
					if at, ok := info.Types[x.Args[0]]; ok && isUnsafePointer(at.Type) && !isUnsafePointer(tv.Type) {
						res.OtherUnsafe = append(res.OtherUnsafe, fmt.Sprintf("%s: conversion from an unsafe.Pointer value in %s", fset.Position(x.Pos()), fn))
					}
					return true
				}
				itv, ok := info.Types[inner.Fun]
				if !ok || !itv.IsType() || !isUnsafePointer(itv.Type) {
					return true
				}
				toName, toSt, toPtr := structOf(tv.Type)
				if !toPtr {
					return true
				}
				opT := info.Types[inner.Args[0]].Type
				fromName, fromSt, fromPtr := structOf(opT)
				_, isAddr := inner.Args[0].(*ast.UnaryExpr)
				site := Site{Pos: fset.Position(x.Pos()).String(), Func: fn, From: fromName, To: toName, FromPtr: fromPtr && !isAddr}
				if toSt == nil || fromSt == nil || !fromPtr {
					site.Problems = append(site.Problems, Problem{"not-struct-pointers", "", fmt.Sprintf("conversion %s -> %s is not between struct pointers", opT, tv.Type)})
					res.Sites = append(res.Sites, site)
					return true
				}
				if st, sf := sizes.Sizeof(toSt), sizes.Sizeof(fromSt); st > sf {
					site.Problems = append(site.Problems, Problem{"size", "", fmt.Sprintf("sizeof(%s)=%d > sizeof(%s)=%d: the view reaches %d bytes past the value", toName, st, fromName, sf, st-sf)})
				}
				if toSt.NumFields() > fromSt.NumFields() {
					site.Problems = append(site.Problems, Problem{"field-count", "", fmt.Sprintf("%s has %d fields, %s only %d", toName, toSt.NumFields(), fromName, fromSt.NumFields())})
				}
				toOff := offsets(sizes, toSt)
				fromOff := offsets(sizes, fromSt)
				for k := 0; k < toSt.NumFields(); k++ {
					site.Fields++
					if k >= fromSt.NumFields() {
						continue
					}
					tf, sf := toSt.Field(k), fromSt.Field(k)
					alias := (tf.Name() == "Items" && sf.Name() == "OrderedItems") || (tf.Name() == "OrderedItems" && sf.Name() == "Items")
					if tf.Name() != sf.Name() && !alias {
						site.Problems = append(site.Problems, Problem{"field-name", tf.Name(), fmt.Sprintf("field %d is %s in %s but %s in %s", k, tf.Name(), toName, sf.Name(), fromName)})
					}
					if tt, ft := term(toSt.Tag(k)), term(fromSt.Tag(k)); tt != ft && !(alias && strings.EqualFold(strings.TrimPrefix(tt, "ordered"), strings.TrimPrefix(ft, "ordered"))) {
						site.Problems = append(site.Problems, Problem{"field-term", tf.Name(), fmt.Sprintf("field %d is the term %q in %s but %q in %s", k, tt, toName, ft, fromName)})
					}
					// The field types must be IDENTICAL. Two distinct interface types with the same method set have the same two-word
					// representation, but not the same method table: a value stored through a view whose field is declared with the
					// other interface type carries that type's itab, and a type assertion or == on the original then fails although
					// the dynamic type and value are right (Activity.Actor Item vs IntransitiveActivity.Actor CanReceiveActivities
					// on the pinned tree).
					if !types.Identical(tf.Type(), sf.Type()) {
						site.Problems = append(site.Problems, Problem{"field-type", tf.Name(), fmt.Sprintf("field %d: %s vs %s", k, tf.Type(), sf.Type())})
					}
					if toOff[k] != fromOff[k] {
						site.Problems = append(site.Problems, Problem{"field-offset", tf.Name(), fmt.Sprintf("field %d at offset %d vs %d", k, toOff[k], fromOff[k])})
					}
				}
				res.States += site.Fields
				res.Sites = append(res.Sites, site)
			}
			return true
		})
	}
	return res, nil
}

// pointerArithmetic reports whether e has the one valid form of an integer that becomes a pointer again:
// uintptr(<unsafe.Pointer>) (+|-) <offset>, possibly parenthesised, or a call of reflect's Pointer / UnsafeAddr.
func pointerArithmetic(info *types.Info, e ast.Expr) bool {
	for {
		p, ok := e.(*ast.ParenExpr)
		if !ok {
			break
		}
		e = p.X
	}
	switch x := e.(type) {
	case *ast.BinaryExpr:
		if x.Op != token.ADD && x.Op != token.SUB && x.Op != token.AND_NOT {
			return false
		}
		return pointerArithmetic(info, x.X)
	case *ast.CallExpr:
		if tv, ok := info.Types[x.Fun]; ok && tv.IsType() && len(x.Args) == 1 {
			// uintptr(p) with p an unsafe.Pointer
			if at, ok := info.Types[x.Args[0]]; ok {
				if b, ok := at.Type.Underlying().(*types.Basic); ok && b.Kind() == types.UnsafePointer {
					return true
				}
			}
			return false
		}
		if sel, ok := x.Fun.(*ast.SelectorExpr); ok && (sel.Sel.Name == "Pointer" || sel.Sel.Name == "UnsafeAddr") {
			return true
		}
	}
	return false
}

func term(tag string) string {
	const key = `jsonld:"`
	i := strings.Index(tag, key)
	if i < 0 {
		return ""
	}
	rest := tag[i+len(key):]
	if j := strings.IndexAny(rest, `,"`); j >= 0 {
		rest = rest[:j]
	}
	return rest
}

func offsets(sizes types.Sizes, st *types.Struct) []int64 {
	fields := make([]*types.Var, st.NumFields())
	for i := range fields {
		fields[i] = st.Field(i)
	}
	return sizes.Offsetsof(fields)
}

// Offsets returns field name -> offset of a struct of the analysed package (gc/amd64 model).
func (r *Result) Offsets(name string) map[string]int64 {
	st := r.Structs[name]
	if st == nil {
		return nil
	}
	off := offsets(types.SizesFor("gc", "amd64"), st)
	out := map[string]int64{}
	for i := 0; i < st.NumFields(); i++ {
		out[st.Field(i).Name()] = off[i]
	}
	return out
}
