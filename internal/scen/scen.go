// Package scen holds the shared values, the read-only operations and the concurrency scenarios of C12. It is used by the
// schedule explorer (instrumented build), by the sequential non-interference pass and by the free-running race pass, so that
// all three exercise the same bodies.
package scen

import (
	"encoding/json"
	"fmt"
	"strings"
	"time"

	ap "github.com/go-ap/activitypub"
)

func nlv(pairs ...string) ap.NaturalLanguageValues {
	var n ap.NaturalLanguageValues
	for i := 0; i+1 < len(pairs); i += 2 {
		n = append(n, ap.LangRefValue{Ref: ap.LangRef(pairs[i]), Value: ap.Content(pairs[i+1])})
	}
	return n
}

func spare(it ap.Item) ap.ItemCollection {
	c := make(ap.ItemCollection, 1, 4)
	c[0] = it
	return c
}

var t0 = time.Date(2022, 5, 6, 7, 8, 9, 0, time.UTC)

// Note is a note with texts, lists and nesting.
func Note() *ap.Object {
	return &ap.Object{
		ID: "https://example.com/notes/1", Type: ap.NoteType,
		Name:    nlv("en", "A \"quoted\" name", "fr", "Un nom"),
		Content: nlv("-", "<p>Hello\nworld \\o/</p>"),
		Summary: nlv("en", "sum"),
		AttributedTo: &ap.Actor{ID: "https://example.com/users/a", Type: ap.PersonType, PreferredUsername: nlv("-", "a"),
			Inbox: ap.IRI("https://example.com/users/a/inbox")},
		To:         ap.ItemCollection{ap.PublicNS, ap.IRI("https://example.com/users/b")},
		CC:         spare(ap.IRI("https://example.com/users/c")), // spare capacity: an append into it would be a write
		Tag:        ap.ItemCollection{&ap.Link{ID: "https://example.com/tags/x", Type: ap.MentionType, Href: "https://example.com/users/b", Name: nlv("-", "@b")}, &ap.Object{Type: ap.NoteType, Name: nlv("-", "#tag")}},
		Attachment: ap.ItemCollection{&ap.Object{ID: "https://example.com/img/1", Type: ap.ImageType, URL: ap.IRI("https://example.com/img/1.png"), MediaType: "image/png"}},
		Published:  t0, Updated: t0.Add(time.Hour), Duration: 90 * time.Second,
		Source:    ap.Source{Content: nlv("-", "Hello *world*"), MediaType: "text/markdown"},
		Replies:   &ap.Collection{ID: "https://example.com/notes/1/replies", Type: ap.CollectionType, TotalItems: 2, Items: ap.ItemCollection{ap.IRI("https://example.com/notes/2"), ap.IRI("https://example.com/notes/3")}},
		InReplyTo: ap.IRIs{"https://example.com/notes/0", "https://example.com/notes/00"},
	}
}

// Person is an actor with key and endpoints.
func Person() *ap.Actor {
	return &ap.Actor{
		ID: "https://example.com/users/a", Type: ap.PersonType, Name: nlv("-", "Ann"), PreferredUsername: nlv("-", "ann"),
		Inbox: ap.IRI("https://example.com/users/a/inbox"), Outbox: &ap.OrderedCollection{ID: "https://example.com/users/a/outbox", Type: ap.OrderedCollectionType},
		Followers: ap.IRI("https://example.com/users/a/followers"), Following: ap.IRI("https://example.com/users/a/following"), Liked: ap.IRI("https://example.com/users/a/liked"),
		Endpoints: &ap.Endpoints{SharedInbox: ap.IRI("https://example.com/inbox"), UploadMedia: ap.IRI("https://example.com/upload")},
		Streams:   ap.ItemCollection{ap.IRI("https://example.com/users/a/stream")},
		PublicKey: ap.PublicKey{ID: "https://example.com/users/a#main-key", Owner: "https://example.com/users/a", PublicKeyPem: "-----BEGIN PUBLIC KEY-----\nMIIB\n-----END PUBLIC KEY-----"},
		Icon:      &ap.Object{Type: ap.ImageType, URL: ap.IRI("https://example.com/a.png")},
	}
}

// Create is an activity with an embedded object.
func Create() *ap.Activity {
	return &ap.Activity{ID: "https://example.com/activities/1", Type: ap.CreateType, Actor: Person(), Object: Note(),
		To: ap.ItemCollection{ap.PublicNS}, CC: ap.ItemCollection{ap.IRI("https://example.com/users/a/followers")}, Published: t0,
		Target: ap.IRI("https://example.com/t"), Origin: &ap.Place{ID: "https://example.com/places/1", Type: ap.PlaceType, Latitude: -12.5, Longitude: 45.25, Units: "m"}}
}

// Outbox is an ordered collection of three.
func Outbox() *ap.OrderedCollection {
	return &ap.OrderedCollection{ID: "https://example.com/users/a/outbox", Type: ap.OrderedCollectionType, TotalItems: 3,
		First:        ap.IRI("https://example.com/users/a/outbox?page=1"),
		OrderedItems: ap.ItemCollection{Create(), ap.IRI("https://example.com/activities/2"), &ap.Activity{ID: "https://example.com/activities/3", Type: ap.LikeType, Object: ap.IRI("https://example.com/notes/1")}}}
}

// Small values for the schedule explorer (the number of schedules grows with the square / cube of the number of yield points).

func SmallNote() *ap.Object {
	return &ap.Object{ID: "https://example.com/notes/1", Type: ap.NoteType, Name: nlv("en", "A \"name\"", "fr", "Un nom"), Content: nlv("-", "<p>Hi\n</p>"),
		To: spare(ap.PublicNS), Tag: ap.ItemCollection{&ap.Link{ID: "https://example.com/tags/x", Type: ap.MentionType, Href: "https://example.com/users/b"}}, Published: t0}
}

func SmallPerson() *ap.Actor {
	return &ap.Actor{ID: "https://example.com/users/a", Type: ap.PersonType, PreferredUsername: nlv("-", "ann"), Inbox: ap.IRI("https://example.com/users/a/inbox"),
		Endpoints: &ap.Endpoints{SharedInbox: ap.IRI("https://example.com/inbox")},
		PublicKey: ap.PublicKey{ID: "https://example.com/users/a#main-key", Owner: "https://example.com/users/a", PublicKeyPem: "PEM"}}
}

func SmallCreate() *ap.Activity {
	return &ap.Activity{ID: "https://example.com/activities/1", Type: ap.CreateType, Actor: ap.IRI("https://example.com/users/a"),
		Object: &ap.Object{ID: "https://example.com/notes/1", Type: ap.NoteType, Content: nlv("-", "hello")}, To: spare(ap.PublicNS)}
}

func SmallOutbox() *ap.OrderedCollection {
	return &ap.OrderedCollection{ID: "https://example.com/users/a/outbox", Type: ap.OrderedCollectionType, TotalItems: 2,
		OrderedItems: ap.ItemCollection{ap.IRI("https://example.com/activities/2"), &ap.Activity{ID: "https://example.com/activities/3", Type: ap.LikeType, Object: ap.IRI("https://example.com/notes/1")}}}
}

// Scalars is a small value made of scalar-typed properties; k selects different contents.
func Scalars(k int) *ap.Object {
	d := time.Duration(k) * time.Hour
	return &ap.Object{ID: ap.IRI(fmt.Sprintf("https://example.com/s/%d", k)), Type: ap.VideoType, MediaType: ap.MimeType(fmt.Sprintf("video/x-%d", k)),
		Published: t0.Add(d), Updated: t0.Add(2 * d), Duration: d + 90*time.Second,
		InReplyTo: ap.IRIs{ap.IRI(fmt.Sprintf("https://example.com/r/%d", k)), ap.IRI(fmt.Sprintf("https://example.com/r/%d", k+10))},
		URL:       &ap.Link{Type: ap.LinkType, Href: ap.IRI(fmt.Sprintf("https://example.com/v/%d.mp4", k)), HrefLang: ap.LangRef(fmt.Sprintf("l%d", k)), Width: uint(100 * k)},
		Location:  &ap.Place{Type: ap.PlaceType, Units: fmt.Sprintf("unit%d", k), Latitude: float64(k) + 0.5}}
}

// LongTexts is a value whose natural-language texts are n, 3n/2 and 2n bytes long (single untagged, map of two); k selects contents.
func LongTexts(k, n int) *ap.Object {
	text := func(m int, seed string) string {
		unit := fmt.Sprintf("%s-%d \"q\" é€😀\n", seed, k)
		return strings.Repeat(unit, m/len(unit)+1)[:m/len(unit)*len(unit)]
	}
	if n < 1024 {
		// schedule explorer: one long text (every byte of it is a yield point of the escaping loop) and a short map
		return &ap.Object{ID: ap.IRI(fmt.Sprintf("https://example.com/long/%d", k)), Type: ap.ArticleType,
			Content: nlv("-", text(n, "content")), Name: nlv("en", fmt.Sprintf("n%d", k), "fr", text(n, "nom"))}
	}
	return &ap.Object{ID: ap.IRI(fmt.Sprintf("https://example.com/long/%d", k)), Type: ap.ArticleType,
		Content: nlv("-", text(n, "content")), Name: nlv("en", text(n*3/2, "name"), "fr", text(n, "nom")), Summary: nlv("-", text(2*n, "summary"))}
}

// Values are the shared values of the scenarios.
func Values() map[string]func() ap.Item {
	return map[string]func() ap.Item{
		"note": func() ap.Item { return Note() }, "person": func() ap.Item { return Person() },
		"create": func() ap.Item { return Create() }, "outbox": func() ap.Item { return Outbox() },
	}
}

// Op is one operation of a thread; it returns an observation that must equal the sequential one.
type Op struct {
	Name string
	Run  func() string
}

func obs(b []byte, err error) string { return fmt.Sprintf("%q err=%v", b, err) }

// MarshalJSON of a shared value.
func MarshalJSON(v ap.Item) Op {
	return Op{"MarshalJSON", func() string { return obs(ap.MarshalJSON(v)) }}
}

// MethodJSON calls the value's own MarshalJSON.
func MethodJSON(v ap.Item) Op {
	return Op{"T.MarshalJSON", func() string { return obs(v.(json.Marshaler).MarshalJSON()) }}
}

// GobEncode encodes and (because gob writes maps in random order) observes the re-decoded value instead of the bytes.
func GobEncode(v ap.Item) Op {
	return Op{"GobEncode", func() string {
		b, err := ap.GobEncode(v)
		if err != nil {
			return fmt.Sprintf("err=%v", err)
		}
		it, err := ap.GobDecode(b)
		if err != nil || it == nil {
			return fmt.Sprintf("redecode nil err=%v", err)
		}
		return fmt.Sprintf("%d>0 %T ", btoi(len(b) > 0), it) + obs(ap.MarshalJSON(it))
	}}
}

func btoi(b bool) int {
	if b {
		return 1
	}
	return 0
}

func ItemsEqual(a, b ap.Item) Op {
	return Op{"ItemsEqual", func() string { return fmt.Sprint(ap.ItemsEqual(a, b)) }}
}

// ContainsIRI asks a shared IRI list for an IRI in another spelling.
func ContainsIRI(l ap.IRIs, i ap.IRI) Op {
	return Op{"IRIs.Contains", func() string { return fmt.Sprint(l.Contains(i), i.Equals(l[0], false), i.Equals(l[0], true)) }}
}

func Sprintf(v ap.Item) Op {
	return Op{"Sprintf", func() string { return fmt.Sprintf("%s|%v|%+v", v, v, v) }}
}

func OnObjectRead(v ap.Item) Op {
	return Op{"OnObject(read)", func() string {
		out := ""
		err := ap.OnObject(v, func(o *ap.Object) error {
			out = fmt.Sprintf("%s %s %d %d %s", o.ID, o.Type, len(o.Name), len(o.To), o.Published)
			return nil
		})
		return fmt.Sprintf("%s err=%v notEmpty=%v isNil=%v", out, err, ap.NotEmpty(v), ap.IsNil(v))
	}}
}

// UnmarshalJSON decodes an independent document and re-encodes the result (so that the observation is comparable).
func UnmarshalJSON(doc []byte) Op {
	return Op{"UnmarshalJSON", func() string {
		it, err := ap.UnmarshalJSON(doc)
		if err != nil || it == nil {
			return fmt.Sprintf("nil err=%v", err)
		}
		return fmt.Sprintf("%T ", it) + obs(ap.MarshalJSON(it))
	}}
}

func GobDecode(data []byte) Op {
	return Op{"GobDecode", func() string {
		it, err := ap.GobDecode(data)
		if err != nil || it == nil {
			return fmt.Sprintf("nil err=%v", err)
		}
		return fmt.Sprintf("%T ", it) + obs(ap.MarshalJSON(it))
	}}
}

// OnItemCollectionRead views x as an item list and reads it.
func OnItemCollectionRead(x ap.Item) Op {
	return Op{"OnItemCollection(read)", func() string {
		seen := ""
		err := ap.OnItemCollection(x, func(col *ap.ItemCollection) error {
			if col != nil {
				seen = fmt.Sprint(len(*col), col.IRIs(), col.Contains(ap.IRI("https://example.com/3")))
			}
			return nil
		})
		return fmt.Sprint(seen, " err=", err)
	}}
}

// Scenario is a set of threads over shared values.
type Scenario struct {
	Name    string
	Shared  []ap.Item // values whose deep snapshot must not change
	Threads []Op
}

var fresh int // S10: a different spelling of the identities for every instance

// Count is the number of scenarios.
const Count = 12

type sizes struct {
	note       func() *ap.Object
	person     func() *ap.Actor
	create     func() *ap.Activity
	outbox     func() *ap.OrderedCollection
	docA, docB []byte
	gobA, gobB []byte
	longN      int
}

var big, small sizes

func init() {
	for _, z := range []*sizes{&big, &small} {
		if z == &big {
			z.note, z.person, z.create, z.outbox = Note, Person, Create, Outbox
			z.longN = 16 << 10
		} else {
			z.note, z.person, z.create, z.outbox = SmallNote, SmallPerson, SmallCreate, SmallOutbox
			z.longN = 270
		}
		z.docA, _ = ap.MarshalJSON(z.note())
		z.docB, _ = ap.MarshalJSON(z.create())
		z.gobA, _ = ap.GobEncode(z.person())
		z.gobB, _ = ap.GobEncode(z.outbox())
	}
}

// Get builds a fresh instance of scenario i with the full-size values (race pass).
func Get(i int) Scenario { return get(i, &big) }

// GetSmall builds a fresh instance of scenario i with the small values (schedule explorer).
func GetSmall(i int) Scenario { return get(i, &small) }

func get(i int, z *sizes) Scenario {
	Note, Person, Create, Outbox := z.note, z.person, z.create, z.outbox
	docA, gobA, gobB, docB := z.docA, z.gobA, z.gobB, z.docB
	mk := func(name string, shared []ap.Item, ops ...Op) Scenario { return Scenario{name, shared, ops} }
	switch i {
	case 0:
		v := Note()
		return mk("S1 MarshalJSON(note) || MarshalJSON(note)", []ap.Item{v}, MarshalJSON(v), MarshalJSON(v))
	case 1:
		v := Create()
		return mk("S1b MarshalJSON(create) || T.MarshalJSON(create)", []ap.Item{v}, MarshalJSON(v), MethodJSON(v))
	case 2:
		v := Person()
		return mk("S2 MarshalJSON(person) || GobEncode(person)", []ap.Item{v}, MarshalJSON(v), GobEncode(v))
	case 3:
		v, w := Note(), Note()
		return mk("S3 ItemsEqual(note, twin) || MarshalJSON(note)", []ap.Item{v, w}, ItemsEqual(v, w), MarshalJSON(v))
	case 4:
		return mk("S4 UnmarshalJSON(docA) || UnmarshalJSON(docB)", nil, UnmarshalJSON(docA), UnmarshalJSON(docB))
	case 5:
		return mk("S5 GobDecode(a) || GobDecode(b)", nil, GobDecode(gobA), GobDecode(gobB))
	case 6:
		v := Outbox()
		return mk("S6 Sprintf(outbox) || OnObject(outbox, read) || MarshalJSON(outbox)", []ap.Item{v}, Sprintf(v), OnObjectRead(v), MarshalJSON(v))
	case 7:
		v := Create()
		return mk("S7 MarshalJSON(create) || UnmarshalJSON(docA) || ItemsEqual(create, create)", []ap.Item{v}, MarshalJSON(v), UnmarshalJSON(docA), ItemsEqual(v, v))
	case 10:
		// the same identities in another presentation (scheme, letter case, trailing slash, reordered query): the comparison
		// cannot be decided on the strings and takes the parsing path, from two threads at once, on a shared list as well
		// every instance spells its identities differently (a counter in the path), so that whatever the library remembers about
		// an IRI it has seen is not yet there when the threads start - first-time paths are run by several threads at once;
		// the counter is written with a FIXED width: a spelling that grows by a byte (9 -> 10) adds a step to every per-byte loop,
		// and two runs of one schedule then differ in their step sequences (that was a harness defect, see DESIGN.md 8.5);
		// ONE query key only: the comparison ranges over a map of the keys, and the order of a Go map is a source of
		// non-determinism the scheduler does not own (with two keys the step sequence of one schedule differed between runs)
		fresh++
		v, w := Note(), Note()
		// the ids carry a query (one repeated key, see below) in two orders: BOTH comparing threads take the query path with the same
		// raw queries at the same time - whatever is remembered per raw query is shared between them
		// (the counter is part of the query VALUES as well: what is remembered per raw query is new in every instance too)
		v.ID = ap.IRI(fmt.Sprintf("https://example.com/notes/%08d/1?a=1%08d&a=0%08d", fresh%100000000, fresh%100000000, fresh%100000000))
		w.ID = v.ID
		for k := range v.To {
			v.To[k] = ap.IRI(fmt.Sprintf("%s/%08d", v.To[k].GetLink(), fresh%100000000))
			w.To[k] = v.To[k]
		}
		respell := func(i ap.IRI) ap.IRI {
			s := string(i)
			if len(s) > 8 && s[:8] == "https://" {
				s = "HTTP://" + s[8:]
			}
			return ap.IRI(s + "/")
		}
		w.ID = ap.IRI(fmt.Sprintf("https://EXAMPLE.com/notes/%08d/1/?a=0%08d&a=1%08d", fresh%100000000, fresh%100000000, fresh%100000000))
		for k, it := range w.To {
			w.To[k] = respell(it.GetLink())
		}
		ids := ap.IRIs{ap.IRI(fmt.Sprintf("https://example.com/q%08d?a=1%08d&a=0%08d", fresh%100000000, fresh%100000000, fresh%100000000)), "https://example.com/notes/1", "https://example.com/q?x=1"}
		return mk("S10 ItemsEqual(note, respelled note) || IRIs.Contains(respelled id) || ItemsEqual(respelled, note)", []ap.Item{v, w, ids},
			ItemsEqual(v, w), ContainsIRI(ids, ap.IRI(fmt.Sprintf("http://EXAMPLE.com/q%08d?a=0%08d&a=1%08d", fresh%100000000, fresh%100000000, fresh%100000000))), ItemsEqual(w, v))
	case 11:
		// arguments that are not vocabulary structs: one IRI list and one item list, shared BY POINTER, viewed as item lists and
		// compared from three threads (a helper that rebuilds such a list and stores it back through the pointer is a writer)
		ids := ap.IRIs{"https://example.com/1", "https://example.com/2", "https://example.com/3"}
		twin := ap.IRIs{"https://example.com/1", "https://example.com/2", "https://example.com/3"}
		items := ap.ItemCollection{ap.IRI("https://example.com/1"), Note(), ap.IRI("https://example.com/3")}
		return mk("S11 OnItemCollection(*IRIs, read) || ItemsEqual(*IRIs, twin) || OnItemCollection(*ItemCollection, read)", []ap.Item{&ids, &twin, &items},
			OnItemCollectionRead(&ids), ItemsEqual(&ids, &twin), OnItemCollectionRead(&items))
	case 9:
		// texts long enough for any size-triggered path (pooled or chunked buffers), different in the two threads
		v, w := LongTexts(1, z.longN), LongTexts(2, z.longN)
		return mk("S9 MarshalJSON(long texts 1) || MarshalJSON(long texts 2)", []ap.Item{v, w}, MarshalJSON(v), MarshalJSON(w))
	default:
		// two DIFFERENT values with scalar properties (instants, durations, string properties, IRI lists): a scratch area shared
		// between the two encoders shows up as a result that differs from the sequential one
		v, w := Scalars(1), Scalars(2)
		return mk("S8 MarshalJSON(scalars1) || MarshalJSON(scalars2)", []ap.Item{v, w}, MarshalJSON(v), MarshalJSON(w))
	}
}

// Scenarios builds fresh instances of all scenarios.
func Scenarios() []Scenario {
	out := make([]Scenario, Count)
	for i := range out {
		out[i] = Get(i)
	}
	return out
}
