// Package instr produces, at check time and from the current tree, the instrumented copy of
// go-ap/activitypub that the schedule explorer needs: a call VerifPoint(<n>) at the top of every
// function body, function literal and loop body, plus one extra file zz_verif.go that declares the
// hook variable and exposes the address of every package-level variable. /repo is not modified: the
// result is a `go build -overlay` file (DESIGN.md §1.4).
package instr

import (
	"bytes"
	"encoding/json"
	"fmt"
	"go/ast"
	"go/parser"
	"go/printer"
	"go/token"
	"os"
	"path/filepath"
	"sort"
	"strings"
)

// Point describes one yield point.
type Point struct {
	ID   int    `json:"id"`
	File string `json:"file"`
	Line int    `json:"line"`
	Func string `json:"func"`
	Kind string `json:"kind"` // func | lit | loop | sync
}

// syncCall reports whether a statement contains a call that looks like a synchronisation or pooling operation
// (sync.Mutex, sync.Pool, fastjson.ParserPool, sync/atomic, sync.Once, sync.Cond ...). The match is by method name: a spurious
// match only adds a yield point, which is harmless.
func syncCall(st ast.Stmt) bool {
	found := false
	ast.Inspect(st, func(n ast.Node) bool {
		if _, ok := n.(*ast.FuncLit); ok {
			return false
		}
		call, ok := n.(*ast.CallExpr)
		if !ok {
			return true
		}
		sel, ok := call.Fun.(*ast.SelectorExpr)
		if !ok {
			return true
		}
		var recv bytes.Buffer
		printer.Fprint(&recv, token.NewFileSet(), sel.X)
		r := strings.ToLower(recv.String())
		switch sel.Sel.Name {
		case "Put", "Lock", "Unlock", "RLock", "RUnlock", "TryLock", "Store", "Swap", "CompareAndSwap", "Wait", "Signal", "Broadcast",
			"StoreInt32", "StoreInt64", "StorePointer", "AddInt32", "AddInt64", "AddUint32", "AddUint64", "LoadInt32", "LoadInt64", "LoadPointer",
			"CompareAndSwapInt32", "CompareAndSwapInt64", "CompareAndSwapPointer", "LoadOrStore", "LoadAndDelete", "Range":
			found = true
		case "Get", "Load", "Add", "Do", "Delete":
			if strings.Contains(r, "pool") || strings.Contains(r, "atomic") || strings.Contains(r, "once") || strings.Contains(r, "cache") || strings.Contains(r, "sync") {
				found = true
			}
		}
		return !found
	})
	return found
}

// Result of an instrumentation run.
type Result struct {
	Overlay string // path of overlay.json
	Points  []Point
	Globals []string
	Files   int
}

// Instrument writes instrumented copies of repoDir/*.go (non-test) under outDir and an overlay.json.
func Instrument(repoDir, outDir string) (*Result, error) {
	if err := os.MkdirAll(outDir, 0o755); err != nil {
		return nil, err
	}
	names, _ := filepath.Glob(filepath.Join(repoDir, "*.go"))
	sort.Strings(names)
	fset := token.NewFileSet()
	res := &Result{}
	replace := map[string]string{}
	pkgName := "activitypub"
	for _, n := range names {
		if strings.HasSuffix(n, "_test.go") || filepath.Base(n) == "zz_verif.go" {
			continue
		}
		f, err := parser.ParseFile(fset, n, nil, parser.ParseComments)
		if err != nil {
			return nil, err
		}
		pkgName = f.Name.Name
		// package-level variables
		for _, d := range f.Decls {
			gd, ok := d.(*ast.GenDecl)
			if !ok || gd.Tok != token.VAR {
				continue
			}
			for _, sp := range gd.Specs {
				for _, id := range sp.(*ast.ValueSpec).Names {
					if id.Name != "_" {
						res.Globals = append(res.Globals, id.Name)
					}
				}
			}
		}
		fn := ""
		add := func(body *ast.BlockStmt, kind string, pos token.Pos) {
			if body == nil {
				return
			}
			id := len(res.Points)
			p := fset.Position(pos)
			res.Points = append(res.Points, Point{ID: id, File: filepath.Base(p.Filename), Line: p.Line, Func: fn, Kind: kind})
			call := &ast.ExprStmt{X: &ast.CallExpr{Fun: ast.NewIdent("VerifPoint"), Args: []ast.Expr{&ast.BasicLit{Kind: token.INT, Value: fmt.Sprint(id)}}}}
			body.List = append([]ast.Stmt{call}, body.List...)
		}
		point := func(kind string, pos token.Pos) ast.Stmt {
			id := len(res.Points)
			p := fset.Position(pos)
			res.Points = append(res.Points, Point{ID: id, File: filepath.Base(p.Filename), Line: p.Line, Func: fn, Kind: kind})
			return &ast.ExprStmt{X: &ast.CallExpr{Fun: ast.NewIdent("VerifPoint"), Args: []ast.Expr{&ast.BasicLit{Kind: token.INT, Value: fmt.Sprint(id)}}}}
		}
		// a yield point before and after every statement that performs a synchronisation / pooling call
		syncList := func(list []ast.Stmt) []ast.Stmt {
			var out []ast.Stmt
			for _, st := range list {
				switch st.(type) {
				case *ast.ExprStmt, *ast.AssignStmt, *ast.DeclStmt, *ast.IncDecStmt, *ast.SendStmt:
					if syncCall(st) {
						out = append(out, point("sync", st.Pos()), st, point("sync", st.Pos()))
						continue
					}
				case *ast.ReturnStmt, *ast.DeferStmt, *ast.GoStmt:
					if syncCall(st) {
						out = append(out, point("sync", st.Pos()), st)
						continue
					}
				}
				out = append(out, st)
			}
			return out
		}
		ast.Inspect(f, func(node ast.Node) bool {
			switch x := node.(type) {
			case *ast.BlockStmt:
				x.List = syncList(x.List)
			case *ast.CaseClause:
				x.Body = syncList(x.Body)
			case *ast.CommClause:
				x.Body = syncList(x.Body)
			}
			switch x := node.(type) {
			case *ast.FuncDecl:
				fn = x.Name.Name
				if x.Recv != nil && len(x.Recv.List) > 0 {
					var b bytes.Buffer
					printer.Fprint(&b, fset, x.Recv.List[0].Type)
					fn = "(" + b.String() + ")." + fn
				}
				if x.Name.Name != "init" {
					add(x.Body, "func", x.Pos())
				}
			case *ast.FuncLit:
				add(x.Body, "lit", x.Pos())
			case *ast.ForStmt:
				add(x.Body, "loop", x.Pos())
			case *ast.RangeStmt:
				add(x.Body, "loop", x.Pos())
			}
			return true
		})
		var out bytes.Buffer
		if err := (&printer.Config{Mode: printer.UseSpaces | printer.TabIndent, Tabwidth: 8}).Fprint(&out, fset, f); err != nil {
			return nil, err
		}
		dst := filepath.Join(outDir, filepath.Base(n))
		if err := os.WriteFile(dst, out.Bytes(), 0o644); err != nil {
			return nil, err
		}
		replace[n] = dst
		res.Files++
	}
	sort.Strings(res.Globals)
	var z bytes.Buffer
	fmt.Fprintf(&z, "// Code generated by verif/internal/instr; not part of the repository.\n\npackage %s\n\n", pkgName)
	z.WriteString("// VerifPoint is called at every yield point; the schedule explorer replaces it.\nvar VerifPoint = func(int) {}\n\n")
	z.WriteString("// VerifGlobals returns the address of every package-level variable.\nfunc VerifGlobals() map[string]any {\n\treturn map[string]any{\n")
	for _, g := range res.Globals {
		fmt.Fprintf(&z, "\t\t%q: &%s,\n", g, g)
	}
	z.WriteString("\t}\n}\n")
	zf := filepath.Join(outDir, "zz_verif.go")
	if err := os.WriteFile(zf, z.Bytes(), 0o644); err != nil {
		return nil, err
	}
	replace[filepath.Join(repoDir, "zz_verif.go")] = zf
	ov, _ := json.MarshalIndent(map[string]any{"Replace": replace}, "", " ")
	res.Overlay = filepath.Join(outDir, "overlay.json")
	if err := os.WriteFile(res.Overlay, ov, 0o644); err != nil {
		return nil, err
	}
	pts, _ := json.Marshal(res.Points)
	if err := os.WriteFile(filepath.Join(outDir, "points.json"), pts, 0o644); err != nil {
		return nil, err
	}
	return res, nil
}
