// Package canon turns any vocabulary value into a tree by reflection — never through the
// library's encoders — and implements the documented normal forms N1..N6 (DESIGN.md §1.3).
package canon

import (
	"fmt"
	"hash/fnv"
	"reflect"
	"sort"
	"strconv"
	"strings"
	"time"

	ap "github.com/go-ap/activitypub"
)

type Mode int

const (
	JSON Mode = iota // N1..N6
	Gob              // N1, N2, N6 only
	Raw              // N1, N2, N6; additionally list/single distinction kept (same as Gob)
)

// Node is one node of the canonical tree. nil means "absent".
type Node struct {
	K    string           // obj | list | str | num | bool | time | lang
	T    string           // Go struct name for obj
	F    map[string]*Node // obj: term -> node
	L    []*Node          // list
	S    string           // scalar text
	Lang [][2]string      // lang: sorted (tag, text)
	Ord  string           // lang: the tags in the order the value holds them (not part of Equal/Diff; see OrderDiff)
	V    bool             // obj: embedded by value in an interface (informational; not part of equality, N2)
}

var (
	tTime     = reflect.TypeOf(time.Time{})
	tDuration = reflect.TypeOf(time.Duration(0))
	tNLV      = reflect.TypeOf(ap.NaturalLanguageValues{})
	tItems    = reflect.TypeOf(ap.ItemCollection{})
	tIRIs     = reflect.TypeOf(ap.IRIs{})
	tIRI      = reflect.TypeOf(ap.IRI(""))
)

// Of canonicalises v.
func Of(v any, m Mode) *Node {
	if v == nil {
		return nil
	}
	return of(reflect.ValueOf(v), m, false)
}

func term(f reflect.StructField) string {
	tag, ok := f.Tag.Lookup("jsonld")
	if !ok {
		return f.Name
	}
	t := strings.Split(tag, ",")[0]
	if t == "" || t == "_" {
		return f.Name
	}
	return t
}

func of(v reflect.Value, m Mode, single bool) *Node {
	if !v.IsValid() {
		return nil
	}
	t := v.Type()
	switch t {
	case tTime:
		tm := v.Interface().(time.Time)
		if tm.IsZero() {
			return nil
		}
		if m == JSON {
			tm = tm.Truncate(time.Second) // N2: the JSON form of an instant is UTC whole seconds
		}
		return &Node{K: "time", S: tm.UTC().Format(time.RFC3339Nano)}
	case tDuration:
		d := v.Interface().(time.Duration)
		if d == 0 {
			return nil
		}
		return &Node{K: "num", S: "dur:" + strconv.FormatInt(int64(d), 10)}
	case tNLV:
		n := v.Interface().(ap.NaturalLanguageValues)
		if len(n) == 0 {
			return nil
		}
		nd := &Node{K: "lang"}
		for _, e := range n {
			tag := string(e.Ref)
			if tag == "" {
				tag = "-"
			}
			nd.Lang = append(nd.Lang, [2]string{tag, string(e.Value)})
		}
		if m == JSON && len(nd.Lang) == 1 {
			nd.Lang[0][0] = "-" // N5
		}
		for _, e := range nd.Lang {
			nd.Ord += e[0] + "\x00"
		}
		sort.Slice(nd.Lang, func(i, j int) bool {
			if nd.Lang[i][0] != nd.Lang[j][0] {
				return nd.Lang[i][0] < nd.Lang[j][0]
			}
			return nd.Lang[i][1] < nd.Lang[j][1]
		})
		return nd
	case tItems, tIRIs:
		if v.Len() == 0 {
			return nil
		}
		nd := &Node{K: "list"}
		for i := 0; i < v.Len(); i++ {
			if e := of(v.Index(i), m, false); e != nil {
				nd.L = append(nd.L, e)
			}
		}
		if len(nd.L) == 0 {
			return nil
		}
		if single && m == JSON && len(nd.L) == 1 {
			return nd.L[0] // N4
		}
		return nd
	}
	switch v.Kind() {
	case reflect.Interface, reflect.Pointer:
		if v.IsNil() {
			return nil
		}
		n := of(v.Elem(), m, single)
		if n != nil && n.K == "obj" && v.Kind() == reflect.Interface && v.Elem().Kind() == reflect.Struct {
			n.V = true
		}
		return n
	case reflect.String:
		if v.Len() == 0 {
			return nil
		}
		return &Node{K: "str", S: v.String()}
	case reflect.Bool:
		if !v.Bool() {
			return nil
		}
		return &Node{K: "bool", S: "true"}
	case reflect.Int, reflect.Int8, reflect.Int16, reflect.Int32, reflect.Int64:
		if v.Int() == 0 {
			return nil
		}
		return &Node{K: "num", S: strconv.FormatInt(v.Int(), 10)}
	case reflect.Uint, reflect.Uint8, reflect.Uint16, reflect.Uint32, reflect.Uint64:
		if v.Uint() == 0 {
			return nil
		}
		return &Node{K: "num", S: strconv.FormatUint(v.Uint(), 10)}
	case reflect.Float32, reflect.Float64:
		if v.Float() == 0 {
			return nil
		}
		return &Node{K: "num", S: strconv.FormatFloat(v.Float(), 'g', -1, 64)}
	case reflect.Slice:
		if v.Len() == 0 {
			return nil
		}
		if t.Elem().Kind() == reflect.Uint8 {
			return &Node{K: "str", S: string(v.Bytes())}
		}
		nd := &Node{K: "list"}
		for i := 0; i < v.Len(); i++ {
			if e := of(v.Index(i), m, false); e != nil {
				nd.L = append(nd.L, e)
			}
		}
		if len(nd.L) == 0 {
			return nil
		}
		return nd
	case reflect.Struct:
		nd := &Node{K: "obj", T: t.Name(), F: map[string]*Node{}}
		for i := 0; i < t.NumField(); i++ {
			sf := t.Field(i)
			if !sf.IsExported() {
				continue
			}
			fv := v.Field(i)
			isSingle := sf.Type.Kind() == reflect.Interface
			if c := of(fv, m, isSingle); c != nil {
				nd.F[term(sf)] = c
			}
		}
		if len(nd.F) == 0 {
			return nil // N1: all-absent struct
		}
		return nd
	}
	return &Node{K: "str", S: fmt.Sprintf("<unsupported %s>", t)}
}

// Equal reports structural equality.
func Equal(a, b *Node) bool {
	if a == nil || b == nil {
		return a == b
	}
	if a.K != b.K || a.T != b.T || a.S != b.S || len(a.F) != len(b.F) || len(a.L) != len(b.L) || len(a.Lang) != len(b.Lang) {
		return false
	}
	for k, x := range a.F {
		y, ok := b.F[k]
		if !ok || !Equal(x, y) {
			return false
		}
	}
	for i := range a.L {
		if !Equal(a.L[i], b.L[i]) {
			return false
		}
	}
	for i := range a.Lang {
		if a.Lang[i] != b.Lang[i] {
			return false
		}
	}
	return true
}

func (n *Node) String() string {
	var b strings.Builder
	n.write(&b)
	return b.String()
}

func (n *Node) write(b *strings.Builder) {
	if n == nil {
		b.WriteString("∅")
		return
	}
	switch n.K {
	case "obj":
		b.WriteString(n.T)
		b.WriteByte('{')
		keys := make([]string, 0, len(n.F))
		for k := range n.F {
			keys = append(keys, k)
		}
		sort.Strings(keys)
		for i, k := range keys {
			if i > 0 {
				b.WriteByte(',')
			}
			b.WriteString(k)
			b.WriteByte(':')
			n.F[k].write(b)
		}
		b.WriteByte('}')
	case "list":
		b.WriteByte('[')
		for i, e := range n.L {
			if i > 0 {
				b.WriteByte(',')
			}
			e.write(b)
		}
		b.WriteByte(']')
	case "lang":
		b.WriteString("lang")
		fmt.Fprintf(b, "%q", n.Lang)
	default:
		fmt.Fprintf(b, "%s(%q)", n.K, n.S)
	}
}

// Hash is a structural hash.
func (n *Node) Hash() uint64 {
	h := fnv.New64a()
	h.Write([]byte(n.String()))
	return h.Sum64()
}

// Class is the shape class of a node, used in finding keys (no ids, no literal values).
func (n *Node) Class() string {
	if n == nil {
		return "absent"
	}
	switch n.K {
	case "obj":
		return "obj:" + n.T
	case "list":
		if len(n.L) == 1 {
			return "list1-" + n.L[0].Class()
		}
		return "list"
	case "lang":
		if len(n.Lang) == 1 {
			return "lang1"
		}
		return "lang2+"
	case "str":
		if strings.Contains(n.S, "://") {
			return "iri"
		}
		return "str"
	}
	return n.K
}

// Delta is one difference between an expected and an observed tree.
type Delta struct {
	Path    string // dotted term path, list indices stripped
	Symptom string // dropped | changed | invented | moved-to:<term> | type-changed:<A>-><B> | kind-changed:<a>-><b> | list-length:<a>-><b>
	Class   string // shape class of the expected node (or of the observed one for "invented")
	Owner   string // Go struct name of the innermost object that holds the differing term
	Want    *Node
	Got     *Node
}

func (d Delta) String() string {
	return fmt.Sprintf("%s: %s (want %s, got %s)", d.Path, d.Symptom, short(d.Want), short(d.Got))
}

func short(n *Node) string {
	s := n.String()
	if len(s) > 160 {
		s = s[:160] + "…"
	}
	return s
}

// Diff compares want (expected) with got (observed).
func Diff(want, got *Node) []Delta {
	var out []Delta
	diff("", "", want, got, &out)
	return out
}

func join(p, t string) string {
	if p == "" {
		return t
	}
	return p + "." + t
}

func diff(path, owner string, a, b *Node, out *[]Delta) {
	if a == nil && b == nil {
		return
	}
	if a == nil {
		*out = append(*out, Delta{Path: path, Owner: owner, Symptom: "invented", Class: b.Class(), Got: b})
		return
	}
	if b == nil {
		*out = append(*out, Delta{Path: path, Owner: owner, Symptom: "dropped", Class: a.Class(), Want: a})
		return
	}
	if a.K != b.K {
		*out = append(*out, Delta{Path: path, Owner: owner, Symptom: "kind-changed:" + a.Class() + "->" + b.Class(), Class: a.Class(), Want: a, Got: b})
		return
	}
	switch a.K {
	case "obj":
		if a.T != b.T {
			*out = append(*out, Delta{Path: path, Owner: owner, Symptom: "type-changed:" + a.T + "->" + b.T, Class: a.Class(), Want: a, Got: b})
		}
		keys := map[string]bool{}
		for k := range a.F {
			keys[k] = true
		}
		for k := range b.F {
			keys[k] = true
		}
		sorted := make([]string, 0, len(keys))
		for k := range keys {
			sorted = append(sorted, k)
		}
		sort.Strings(sorted)
		var local []Delta
		for _, k := range sorted {
			diff(join(path, k), a.T, a.F[k], b.F[k], &local)
		}
		// a dropped term whose value shows up under an invented term was moved
		used := map[int]bool{}
		for i := range local {
			if local[i].Symptom != "dropped" || strings.Count(local[i].Path, ".") != strings.Count(join(path, "x"), ".") {
				continue
			}
			for j := range local {
				if used[j] || local[j].Symptom != "invented" || strings.Count(local[j].Path, ".") != strings.Count(local[i].Path, ".") {
					continue
				}
				if Equal(local[i].Want, local[j].Got) {
					to := local[j].Path
					if k := strings.LastIndex(to, "."); k >= 0 {
						to = to[k+1:]
					}
					local[i].Symptom = "moved-to:" + to
					local[i].Got = local[j].Got
					used[j] = true
					break
				}
			}
		}
		for j := range local {
			if !used[j] {
				*out = append(*out, local[j])
			}
		}
	case "list":
		if len(a.L) != len(b.L) {
			*out = append(*out, Delta{Path: path, Owner: owner, Symptom: fmt.Sprintf("list-length:%d->%d", len(a.L), len(b.L)), Class: a.Class(), Want: a, Got: b})
			return
		}
		for i := range a.L {
			diff(path+"[]", owner, a.L[i], b.L[i], out)
		}
	default:
		if !Equal(a, b) {
			*out = append(*out, Delta{Path: path, Owner: owner, Symptom: "changed", Class: a.Class(), Want: a, Got: b})
		}
	}
}

// Clone deep-copies a tree.
func (n *Node) Clone() *Node {
	if n == nil {
		return nil
	}
	c := &Node{K: n.K, T: n.T, S: n.S, V: n.V}
	if n.F != nil {
		c.F = make(map[string]*Node, len(n.F))
		for k, v := range n.F {
			c.F[k] = v.Clone()
		}
	}
	for _, e := range n.L {
		c.L = append(c.L, e.Clone())
	}
	c.Lang = append(c.Lang, n.Lang...)
	return c
}

// LastTerm is the last term of a path.
func LastTerm(p string) string {
	p = StripIndices(p)
	if k := strings.LastIndex(p, "."); k >= 0 {
		return p[k+1:]
	}
	return p
}

// Depth is the number of terms of a path.
func Depth(p string) int {
	if p == "" {
		return 0
	}
	return strings.Count(p, ".") + 1
}

// StripIndices removes "[]" markers from a path for finding keys that should not depend on list position.
func StripIndices(p string) string { return strings.ReplaceAll(p, "[]", "") }

// OrderDiff compares the ORDER of the entries of every language list of two trees that are Equal: a language list is an ordered
// map (C19), and a codec that hands the same entries back in another order has changed the value (First(), String(), the member
// order of the written map). It returns "" or the path of the first list whose order differs.
func OrderDiff(a, b *Node) string {
	return orderDiff(a, b, "")
}

func orderDiff(a, b *Node, path string) string {
	if a == nil || b == nil || a.K != b.K {
		return ""
	}
	switch a.K {
	case "lang":
		if a.Ord != b.Ord && len(a.Lang) == len(b.Lang) {
			return path
		}
	case "obj":
		keys := make([]string, 0, len(a.F))
		for k := range a.F {
			keys = append(keys, k)
		}
		sort.Strings(keys)
		for _, k := range keys {
			if d := orderDiff(a.F[k], b.F[k], path+"."+k); d != "" {
				return d
			}
		}
	case "list":
		for i := range a.L {
			if i < len(b.L) {
				if d := orderDiff(a.L[i], b.L[i], fmt.Sprintf("%s[%d]", path, i)); d != "" {
					return d
				}
			}
		}
	}
	return ""
}

// HasMultiLang reports whether the tree holds a language list of two or more entries.
func HasMultiLang(n *Node) bool {
	if n == nil {
		return false
	}
	if n.K == "lang" {
		return len(n.Lang) > 1
	}
	for _, f := range n.F {
		if HasMultiLang(f) {
			return true
		}
	}
	for _, e := range n.L {
		if HasMultiLang(e) {
			return true
		}
	}
	return false
}
