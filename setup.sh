#!/bin/sh
# setup: pre-warm the build cache (plain build of the checker). Offline; touches only /verif/.build.
cd "$(dirname "$0")" || exit 2
export GOFLAGS=-mod=mod GOPROXY=off GOSUMDB=off GOTOOLCHAIN=local
export GOCACHE="${GOCACHE:-$PWD/.build/gocache}"
mkdir -p .build
go build -o .build/verif-check ./cmd/verif-check || exit 1
echo setup ok
