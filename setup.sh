#!/bin/sh
# setup: pre-warm the build cache: plain build of the checker, the checkptr build (C08), the instrumented build (C12: overlay
# generated from the current tree by internal/instr) and the -race build of the free-running pass (C12). Offline; touches only /verif/.build.
cd "$(dirname "$0")" || exit 2
export GOFLAGS=-mod=mod GOPROXY=off GOSUMDB=off GOTOOLCHAIN=local
export GOCACHE="${GOCACHE:-$PWD/.build/gocache}"
mkdir -p .build/C08 .build/C12
go build -o .build/verif-check ./cmd/verif-check || exit 1
go build -gcflags=all=-d=checkptr -o .build/C08/verif-check-checkptr ./cmd/verif-check || exit 1
go build -race -o .build/C12/verif-race ./cmd/verif-race || exit 1
go run ./cmd/verif-instr /repo .build/C12/instr >/dev/null || exit 1
go build -tags verif -overlay .build/C12/instr/overlay.json -o .build/C12/verif-check-instr ./cmd/verif-check || exit 1
echo setup ok
