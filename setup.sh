#!/bin/sh
# setup: pre-warm the build cache (plain build of the checker, the checkptr build used by C08). Offline; touches only /verif/.build.
cd "$(dirname "$0")" || exit 2
export GOFLAGS=-mod=mod GOPROXY=off GOSUMDB=off GOTOOLCHAIN=local
export GOCACHE="${GOCACHE:-$PWD/.build/gocache}"
mkdir -p .build/C08
go build -o .build/verif-check ./cmd/verif-check || exit 1
go build -gcflags=all=-d=checkptr -o .build/C08/verif-check-checkptr ./cmd/verif-check || exit 1
echo setup ok
