#!/bin/sh
# run.sh <Cxx> [quick|thorough|--replay file ...]
# Rebuilds the checker against /repo's current working tree (go.mod: replace => /repo) and runs one check.
cd "$(dirname "$0")" || exit 2
export GOFLAGS=-mod=mod GOPROXY=off GOSUMDB=off GOTOOLCHAIN=local
export GOCACHE="${GOCACHE:-$PWD/.build/gocache}"
mkdir -p .build
go build -o .build/verif-check ./cmd/verif-check || { echo "HARNESS-ERROR: build failed (does /repo still compile?)"; exit 2; }
id="$1"; shift
case "$1" in
  quick|thorough) tier="$1"; shift; exec ./.build/verif-check "$id" --tier "$tier" "$@";;
  *) exec ./.build/verif-check "$id" "$@";;
esac
