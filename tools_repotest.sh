#!/bin/sh
# runs the repository's own suite (dir $1, default /repo) and compares with BASELINE.json stable_pass
D="${1:-/repo}"
export GOFLAGS=-mod=mod GOPROXY=off GOSUMDB=off GOTOOLCHAIN=local
export GOCACHE="${GOCACHE:-/verif/.build/gocache}"
OUT="/verif/.build/repotest.$$.json"
export OUT
cd "$D" && go test -json -vet=off -count=1 -timeout 25m ./... > "$OUT" 2>"$OUT.err"
python3 - <<'PY'
import json, os
base=set(json.load(open('/root/.vp/BASELINE.json'))['stable_pass'])
res={}
for l in open(os.environ['OUT']):
    try: e=json.loads(l)
    except: continue
    if e.get('Test') and e.get('Action') in('pass','fail','skip'):
        res[e['Package']+'::'+e['Test']]=e['Action']
passed={k for k,v in res.items() if v=='pass'}
missing=sorted(base-passed)
print(f"baseline={len(base)} passed_now={len(passed)} baseline_not_passing={len(missing)}")
for m in missing[:30]: print('  NOT PASSING:',m,res.get(m))
import sys; sys.exit(1 if missing else 0)
PY
rc=$?
rm -f "$OUT" "$OUT.err"
exit $rc
