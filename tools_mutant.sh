#!/bin/sh
# tools_mutant.sh <patch.diff> <Cxx> [<Cyy> ...]  — applies a property-breaking change to /repo, confirms the repository's
# own tests still pass, runs the given checks (quick), and reverts. Never commits anything in /repo.
P="$(realpath "$1")"; shift
cd /repo || exit 2
if ! git diff --quiet; then echo "/repo has uncommitted changes"; exit 2; fi
git apply "$P" || { echo "patch does not apply"; exit 2; }
trap 'git -C /repo checkout -- . ' EXIT
if [ -z "$SKIP_TESTS" ]; then /verif/tools_repotest.sh | tail -3; fi
cd /verif
for c in "$@"; do
  out=$(./run.sh "$c" ${TIER:-quick} 2>&1); rc=$?
  echo "== $c exit=$rc violations=$(echo "$out" | grep -c '^VIOLATION')"
  echo "$out" | grep -A3 '^VIOLATION' | head -${LINES_SHOWN:-8}
  echo "$out" | tail -1
done
