package checks

import (
	"fmt"
	"reflect"
	"strings"

	ap "github.com/go-ap/activitypub"
	"github.com/valyala/fastjson"

	"verif/internal/canon"
	"verif/internal/engine"
	"verif/internal/jsonref"
	"verif/internal/universe"
)

// C07 — every vocabulary type name maps to one Go type, consistently everywhere (DESIGN.md §3 C07, reading D3).

// c07Vocabulary is the independent table name -> (Go struct, family), written from the ActivityStreams vocabulary.
var c07Vocabulary = map[string][2]string{
	"Object": {"Object", "generic"}, "Article": {"Object", "object"}, "Audio": {"Object", "object"}, "Document": {"Object", "object"}, "Event": {"Object", "object"},
	"Image": {"Object", "object"}, "Note": {"Object", "object"}, "Page": {"Object", "object"}, "Video": {"Object", "object"},
	"Place": {"Place", "object"}, "Profile": {"Profile", "object"}, "Relationship": {"Relationship", "object"}, "Tombstone": {"Tombstone", "object"},
	"Link": {"Link", "link"}, "Mention": {"Link", "link"},
	"Activity": {"Activity", "generic"}, "Accept": {"Activity", "activity"}, "Add": {"Activity", "activity"}, "Announce": {"Activity", "activity"}, "Block": {"Activity", "activity"},
	"Create": {"Activity", "activity"}, "Delete": {"Activity", "activity"}, "Dislike": {"Activity", "activity"}, "Flag": {"Activity", "activity"}, "Follow": {"Activity", "activity"},
	"Ignore": {"Activity", "activity"}, "Invite": {"Activity", "activity"}, "Join": {"Activity", "activity"}, "Leave": {"Activity", "activity"}, "Like": {"Activity", "activity"},
	"Listen": {"Activity", "activity"}, "Move": {"Activity", "activity"}, "Offer": {"Activity", "activity"}, "Reject": {"Activity", "activity"}, "Read": {"Activity", "activity"},
	"Remove": {"Activity", "activity"}, "TentativeReject": {"Activity", "activity"}, "TentativeAccept": {"Activity", "activity"}, "Undo": {"Activity", "activity"},
	"Update": {"Activity", "activity"}, "View": {"Activity", "activity"},
	"IntransitiveActivity": {"IntransitiveActivity", "generic"}, "Arrive": {"IntransitiveActivity", "intransitive"}, "Travel": {"IntransitiveActivity", "intransitive"},
	"Question": {"Question", "intransitive"},
	"Actor":    {"Actor", "generic"}, "Application": {"Actor", "actor"}, "Group": {"Actor", "actor"}, "Organization": {"Actor", "actor"}, "Person": {"Actor", "actor"}, "Service": {"Actor", "actor"},
	"Collection": {"Collection", "collection"}, "OrderedCollection": {"OrderedCollection", "collection"}, "CollectionPage": {"CollectionPage", "collection"},
	"OrderedCollectionPage": {"OrderedCollectionPage", "collection"},
}

// names outside the vocabulary: plain, wrong case, and namespaced / prefixed / padded spellings of vocabulary names (a name is
// its exact spelling; compact-IRI or absolute-IRI forms are other names)
var c07Unknown = []string{"Foo", "note", "Objectx", "schema:Person", "toot:Note", "as:Note", "sec:Key", "otherns:Listen", "http://schema.org#Person",
	"https://www.w3.org/ns/activitystreams#Note", " Note", "Note ", "NOTE", "Notes", "PropertyValue", "#Note", "Note#", "Person/", "Ar\u0131ive"}

type c07Custom struct {
	ap.Object
	Marker string
}

func c07Names() []string {
	seen := map[string]bool{}
	var out []string
	add := func(n string) {
		if !seen[n] {
			seen[n] = true
			out = append(out, n)
		}
	}
	for n := range c07Vocabulary {
		add(n)
	}
	// the live lists may name types the table does not know: they are explored too (and reported)
	for _, l := range []ap.ActivityVocabularyTypes{ap.Types, ap.GenericTypes, ap.ObjectTypes, ap.ActorTypes, ap.ActivityTypes, ap.IntransitiveActivityTypes, ap.LinkTypes} {
		for _, n := range l {
			add(string(n))
		}
	}
	for _, n := range ap.CollectionTypes {
		if n != ap.CollectionOfItems {
			add(string(n))
		}
	}
	sortStrings(out)
	out = append(out, "")
	return append(out, c07Unknown...)
}

func sortStrings(s []string) {
	for i := 1; i < len(s); i++ {
		for j := i; j > 0 && s[j] < s[j-1]; j-- {
			s[j], s[j-1] = s[j-1], s[j]
		}
	}
}

// c07Value builds the marker value for a name: id, name and every tail property of the struct.
func c07Value(structName, typeName string) universe.Recipe {
	s := universe.ByName(structName)
	r := universe.Recipe{Struct: s, TypeName: typeName}
	core := reflect.TypeOf(ap.Object{})
	for _, f := range s.PropertyFields() {
		_, inCore := core.FieldByName(f.Name)
		if inCore && f.Name != "Name" && structName != "Link" {
			continue
		}
		if f.Name == "Endpoints" || f.Name == "PublicKey" {
			continue
		}
		sh := universe.ShapesFor(f, universe.JSON, true)
		if len(sh) == 0 {
			continue
		}
		r.Sets = append(r.Sets, universe.Set{Field: f, Shape: sh[0]})
	}
	return r
}

var c07Channels = []string{"registry", "json-top", "json-item", "json-list", "gob-top", "gob-item", "gob-list",
	"json-top-escaped", "json-item-escaped", "json-list-escaped", "json-top-after-unknown", "json-item-after-unknown", "json-item-between-unknown",
	"json-deep-10", "json-deep-70", "gob-deep-70", "json-top-page-like-id"}

func c07SetHooks() func() {
	oldT, oldU, oldE := ap.ItemTyperFunc, ap.JSONItemUnmarshal, ap.IsNotEmpty
	ap.ItemTyperFunc = func(t ap.ActivityVocabularyType) (ap.Item, error) {
		if _, known := c07Vocabulary[string(t)]; !known && t != "" {
			return &c07Custom{Object: ap.Object{Type: t}, Marker: "custom"}, nil
		}
		return ap.GetItemByType(t)
	}
	ap.JSONItemUnmarshal = func(t ap.ActivityVocabularyType, v *fastjson.Value, it ap.Item) error {
		if c, ok := it.(*c07Custom); ok {
			return ap.JSONLoadObject(v, &c.Object)
		}
		return nil
	}
	ap.IsNotEmpty = func(it ap.Item) bool {
		if c, ok := it.(*c07Custom); ok {
			return len(c.ID) > 0
		}
		return ap.NotEmpty(it)
	}
	return func() { ap.ItemTyperFunc, ap.JSONItemUnmarshal, ap.IsNotEmpty = oldT, oldU, oldE }
}

// c07Through sends the value through a channel and returns what comes out (nil: nothing), plus an error.
func c07Through(channel string, name string, x ap.Item) (ap.Item, error) {
	host := func(nested ap.Item, inList bool) *ap.Object {
		h := &ap.Object{ID: "https://example.com/host", Type: ap.NoteType}
		if inList {
			h.Tag = ap.ItemCollection{ap.IRI("https://example.com/first"), nested}
		} else {
			h.Attachment = nested
		}
		return h
	}
	unhost := func(it ap.Item, inList bool) (ap.Item, error) {
		o, ok := it.(*ap.Object)
		if !ok {
			return nil, fmt.Errorf("host decoded as %T", it)
		}
		if inList {
			if len(o.Tag) != 2 {
				return nil, nil
			}
			return o.Tag[1], nil
		}
		return o.Attachment, nil
	}
	switch channel {
	case "registry":
		return ap.ItemTyperFunc(ap.ActivityVocabularyType(name))
	case "json-top":
		b, err := ap.MarshalJSON(x)
		if err != nil {
			return nil, err
		}
		return ap.UnmarshalJSON(b)
	case "json-item", "json-list":
		b, err := ap.MarshalJSON(host(x, channel == "json-list"))
		if err != nil {
			return nil, err
		}
		it, err := ap.UnmarshalJSON(b)
		if err != nil {
			return nil, err
		}
		return unhost(it, channel == "json-list")
	case "json-top-escaped", "json-item-escaped", "json-list-escaped":
		// the same documents with every string and member name spelled in \uXXXX escapes ("Li\u006be" is the name Like)
		var v ap.Item = x
		if channel != "json-top-escaped" {
			v = host(x, channel == "json-list-escaped")
		}
		b, err := ap.MarshalJSON(v)
		if err != nil {
			return nil, err
		}
		node, err := jsonref.Parse(b)
		if err != nil {
			return nil, fmt.Errorf("library output does not parse: %v", err)
		}
		it, err := ap.UnmarshalJSON(jsonref.Render(node, jsonref.RenderOpts{EscapeAll: true}))
		if err != nil || channel == "json-top-escaped" {
			return it, err
		}
		return unhost(it, channel == "json-list-escaped")
	case "json-top-after-unknown", "json-item-after-unknown", "json-item-between-unknown":
		// an array in which a member of a type outside the vocabulary precedes (and follows) the value: the sibling must still
		// be decoded to its Go type
		b, err := ap.MarshalJSON(x)
		if err != nil {
			return nil, err
		}
		unknown := `{"type":"PropertyValue","name":"Pronouns","value":"they/them"}`
		arr := "[" + unknown + "," + string(b) + "]"
		if channel == "json-item-between-unknown" {
			arr = "[" + unknown + "," + string(b) + "," + unknown + "]"
		}
		doc := arr
		if channel != "json-top-after-unknown" {
			doc = `{"id":"https://example.com/host","type":"Note","attachment":` + arr + `}`
		}
		it, err := ap.UnmarshalJSON([]byte(doc))
		if err != nil {
			return nil, err
		}
		if channel != "json-top-after-unknown" {
			o, ok := it.(*ap.Object)
			if !ok {
				return nil, fmt.Errorf("host decoded as %T", it)
			}
			it = o.Attachment
		}
		var members ap.ItemCollection
		switch l := it.(type) {
		case ap.ItemCollection:
			members = l
		case *ap.ItemCollection:
			members = *l
		case nil:
			return nil, nil
		default:
			members = ap.ItemCollection{l}
		}
		// the value is the member that is not the unknown one
		for _, m := range members {
			if m == nil {
				continue
			}
			if string(m.GetType()) == "PropertyValue" {
				continue
			}
			if _, custom := m.(*c07Custom); custom && name != "PropertyValue" {
				continue
			}
			return m, nil
		}
		return nil, nil
	case "json-deep-10", "json-deep-70", "gob-deep-70":
		// the value at the bottom of a chain of embedded objects (alternately through attachment and inReplyTo)
		depth := 10
		if channel != "json-deep-10" {
			depth = 70
		}
		var inner ap.Item = x
		for d := 0; d < depth; d++ {
			o := &ap.Object{ID: ap.IRI(fmt.Sprintf("https://example.com/chain/%d", d)), Type: ap.NoteType}
			if d%2 == 0 {
				o.Attachment = inner
			} else {
				o.InReplyTo = inner
			}
			inner = o
		}
		var it ap.Item
		if channel == "gob-deep-70" {
			b, err := ap.GobEncode(inner)
			if err != nil {
				return nil, err
			}
			if it, err = ap.GobDecode(b); err != nil {
				return nil, err
			}
		} else {
			b, err := ap.MarshalJSON(inner)
			if err != nil {
				return nil, err
			}
			if it, err = ap.UnmarshalJSON(b); err != nil {
				return nil, err
			}
		}
		for d := depth - 1; d >= 0; d-- {
			o, ok := it.(*ap.Object)
			if !ok {
				return nil, fmt.Errorf("level %d of the chain decoded as %T", d, it)
			}
			if d%2 == 0 {
				it = o.Attachment
			} else {
				it = o.InReplyTo
			}
		}
		return it, nil
	case "json-top-page-like-id":
		// the value's id is "<partOf>?page=2" and partOf names the prefix: a relation between members must not change what the
		// type name means (x itself is given that id - and that partOf where its struct has the property - so that the caller's
		// comparison is with what was written)
		xv := reflect.ValueOf(x)
		if xv.Kind() != reflect.Pointer || xv.IsNil() {
			return nil, fmt.Errorf("not a pointer value")
		}
		xv.Elem().FieldByName("ID").Set(reflect.ValueOf(ap.IRI("https://example.com/outbox?page=2")))
		hasPartOf := false
		if f := xv.Elem().FieldByName("PartOf"); f.IsValid() {
			f.Set(reflect.ValueOf(ap.IRI("https://example.com/outbox")))
			hasPartOf = true
		}
		b, err := ap.MarshalJSON(x)
		if err != nil {
			return nil, err
		}
		if !hasPartOf {
			node, err := jsonref.Parse(b)
			if err != nil || node.Kind != "object" {
				return nil, fmt.Errorf("library output does not parse as an object: %v", err)
			}
			node.Names = append(node.Names, "partOf")
			node.Members = append(node.Members, &jsonref.Node{Kind: "string", Str: "https://example.com/outbox"})
			b = jsonref.Render(node, jsonref.RenderOpts{})
		}
		return ap.UnmarshalJSON(b)
	case "gob-top":
		b, err := ap.GobEncode(x)
		if err != nil {
			return nil, err
		}
		return ap.GobDecode(b)
	case "gob-item", "gob-list":
		b, err := ap.GobEncode(host(x, channel == "gob-list"))
		if err != nil {
			return nil, err
		}
		it, err := ap.GobDecode(b)
		if err != nil {
			return nil, err
		}
		return unhost(it, channel == "gob-list")
	}
	return nil, fmt.Errorf("unknown channel")
}

func init() {
	engine.Register(&engine.Check{
		ID: "C07", Name: "type-names", Level: "model_checking",
		Rule: "names = the vocabulary table (57 names) united with every name of the live type lists, the empty name and 3 names outside the vocabulary; channels = registry, JSON top level / nested in a single-item " +
			"property / nested in a list (each also with every string spelled in \\uXXXX escapes), JSON arrays in which a member of a non-vocabulary type precedes or surrounds the value (top level and single-item position), gob top level / nested in item / nested in list; configurations = hooks unset / hooks set; complete cross product, plus family-list membership, IsObject/IsLink/IsCollection and the " +
			"On*/To* acceptance matrix per name; marker value = id, name and every family-specific property of the struct; non-trivial = a vocabulary name",
		Assumptions: []string{"the vocabulary table in c07.go is the independent ground truth (written from the ActivityStreams vocabulary)", "reading D3 for generic and unknown names"},
		Bound: func(string) string {
			return "complete: ~61 names x 17 channels x 2 hook configurations + membership and helper matrices (same in both tiers); families added after round 5: DESIGN.md 8.11"
		},
		Shards: 8,
		Run:    c07Run,
	})
}

func c07Run(c *engine.Ctx) {
	names := c07Names()
	for _, name := range names {
		entry, known := c07Vocabulary[name]
		if name == "" {
			entry, known = [2]string{"Object", "generic"}, true
		}
		isUnknownName := false
		for _, u := range c07Unknown {
			if u == name {
				isUnknownName = true
			}
		}
		for _, hooks := range []bool{false, true} {
			for _, ch0 := range append(append([]string{}, c07Channels...), "bare:json-top", "bare:json-item", "bare:json-list", "bare:gob-top", "bare:gob-item", "bare:gob-list") {
				// "bare:" channels: the value carries its id and type and NOTHING else (a collection without members, an activity without
				// object, a place without coordinates): what it is does not depend on what it holds
				bare := strings.HasPrefix(ch0, "bare:")
				if bare && (!known || isUnknownName || name == "") {
					continue
				}
				name, ch, hooks, entry, known := name, strings.TrimPrefix(ch0, "bare:"), hooks, entry, known
				class := fmt.Sprintf("C07|%s|%s|hooks=%v", ch0, c07Label(name), hooks)
				c.Do(class, func() string { return fmt.Sprintf("type name %q through %s, hooks set: %v", name, ch0, hooks) }, func(t *engine.T) {
					t.Distinct(known && !isUnknownName)
					if hooks {
						defer c07SetHooks()()
					}
					structName := entry[0]
					if !known {
						structName = "Object"
					}
					r := c07Value(structName, name)
					if bare {
						r.Sets = nil
					}
					x := r.Item()
					got, err := c07Through(ch, name, x)
					t.Ops(2)
					if !known || isUnknownName {
						// D3: error, nothing, or the generic plain Object; with hooks the custom type
						if canon.Of(got, canon.Raw) == nil {
							got = nil // an empty list is "nothing" (normal form N1)
						}
						switch g := got.(type) {
						case nil:
							t.Outcome("unknown-name:nothing-or-error")
						case *ap.Object:
							t.Outcome("unknown-name:plain-object")
						case *c07Custom:
							if !hooks {
								t.Fail(class+"|custom-type-without-hooks", "got the hook's custom type although hooks are unset")
							}
							t.Outcome("unknown-name:custom-type")
						default:
							if !known && !isUnknownName {
								t.Fail(class+"|name-not-in-vocabulary-table", "the live type lists name %q, which the vocabulary table does not know; it produced a %T", name, g)
							} else {
								t.Fail(class+"|wrong-vocabulary-type", "a name outside the vocabulary produced a %T (err=%v)", g, err)
							}
						}
						return
					}
					if err != nil {
						t.Fail(class+"|error", "channel failed: %v", err)
						return
					}
					if gt := structNameOf(got); gt != structName {
						t.Fail(class+"|go-type:"+gt, "expected *%s, got %T", structName, got)
						return
					}
					if ch == "registry" {
						if string(got.GetType()) != name {
							t.Fail(class+"|registry-type-name", "registry value carries type %q", got.GetType())
						}
						return
					}
					mode := canon.JSON
					if strings.HasPrefix(ch, "gob") {
						mode = canon.Gob
					}
					for _, d := range canon.Diff(canon.Of(x, mode), canon.Of(got, mode)) {
						t.Fail(class+"|"+canon.LastTerm(d.Path)+"|"+d.Symptom, "the decoded value does not carry what was written: %s", d)
					}
				})
			}
		}
		if !known || isUnknownName {
			continue
		}
		// family membership and predicates
		name, entry := name, entry
		c.Do("C07|family|"+c07Label(name), func() string { return fmt.Sprintf("family lists and predicates for %q", name) }, func(t *engine.T) {
			t.Distinct(true)
			class := "C07|family|" + c07Label(name)
			tn := ap.ActivityVocabularyType(name)
			lists := map[string]ap.ActivityVocabularyTypes{"object": ap.ObjectTypes, "actor": ap.ActorTypes, "activity": ap.ActivityTypes,
				"intransitive": ap.IntransitiveActivityTypes, "link": ap.LinkTypes, "collection": ap.CollectionTypes}
			fam := entry[1]
			for lf, l := range lists {
				in := l.Contains(tn)
				switch {
				case fam == "generic" || name == "":
					if in {
						t.Fail(class+"|generic-in-"+lf+"-list", "generic name %q is in the %s list", name, lf)
					}
				case lf == fam && !in:
					t.Fail(class+"|missing-from-own-list", "%q is not in the %s list", name, lf)
				case lf != fam && in:
					t.Fail(class+"|in-wrong-list:"+lf, "%q (family %s) is in the %s list", name, fam, lf)
				}
			}
			if name != "" {
				if fam == "generic" && !ap.GenericTypes.Contains(tn) {
					t.Fail(class+"|generic-not-in-GenericTypes", "%q is not in GenericTypes", name)
				}
				if fam != "generic" && ap.GenericTypes.Contains(tn) {
					t.Fail(class+"|specific-in-GenericTypes", "%q is in GenericTypes", name)
				}
				if fam != "generic" && !ap.Types.Contains(tn) {
					t.Fail(class+"|missing-from-Types", "%q is not in Types", name)
				}
			}
			it, err := ap.GetItemByType(tn)
			t.Ops(1)
			if err != nil || it == nil {
				t.Fail(class+"|registry-error", "GetItemByType(%q) = %v, %v", name, it, err)
				return
			}
			wantLink := entry[0] == "Link"
			wantColl := fam == "collection"
			if it.IsLink() != wantLink || it.IsObject() != !wantLink || it.IsCollection() != wantColl || ap.IsObject(it) != !wantLink || ap.IsLink(it) != wantLink {
				t.Fail(class+"|predicates", "IsLink=%v IsObject=%v IsCollection=%v pkg.IsObject=%v pkg.IsLink=%v for a %s", it.IsLink(), it.IsObject(), it.IsCollection(), ap.IsObject(it), ap.IsLink(it), entry[0])
			}
			// helper acceptance: On* invokes its callback with a non-nil pointer iff To* returns one without error; the family's own helper accepts
			r := c07Value(entry[0], name)
			v := r.Item()
			type hres struct {
				name     string
				toOK     bool
				onCalled bool
			}
			var hs []hres
			probe := func(n string, toOK bool, on func() bool) { hs = append(hs, hres{n, toOK, on()}) }
			{
				p, e := ap.ToObject(v)
				probe("Object", e == nil && p != nil, func() bool { c := false; ap.OnObject(v, func(*ap.Object) error { c = true; return nil }); return c })
			}
			{
				p, e := ap.ToLink(v)
				probe("Link", e == nil && p != nil, func() bool { c := false; ap.OnLink(v, func(*ap.Link) error { c = true; return nil }); return c })
			}
			{
				p, e := ap.ToActivity(v)
				probe("Activity", e == nil && p != nil, func() bool { c := false; ap.OnActivity(v, func(*ap.Activity) error { c = true; return nil }); return c })
			}
			{
				p, e := ap.ToIntransitiveActivity(v)
				probe("IntransitiveActivity", e == nil && p != nil, func() bool {
					c := false
					ap.OnIntransitiveActivity(v, func(*ap.IntransitiveActivity) error { c = true; return nil })
					return c
				})
			}
			{
				p, e := ap.ToQuestion(v)
				probe("Question", e == nil && p != nil, func() bool { c := false; ap.OnQuestion(v, func(*ap.Question) error { c = true; return nil }); return c })
			}
			{
				p, e := ap.ToActor(v)
				probe("Actor", e == nil && p != nil, func() bool { c := false; ap.OnActor(v, func(*ap.Actor) error { c = true; return nil }); return c })
			}
			{
				p, e := ap.ToCollection(v)
				probe("Collection", e == nil && p != nil, func() bool {
					c := false
					ap.OnCollection(v, func(*ap.Collection) error { c = true; return nil })
					return c
				})
			}
			{
				p, e := ap.ToCollectionPage(v)
				probe("CollectionPage", e == nil && p != nil, func() bool {
					c := false
					ap.OnCollectionPage(v, func(*ap.CollectionPage) error { c = true; return nil })
					return c
				})
			}
			{
				p, e := ap.ToOrderedCollection(v)
				probe("OrderedCollection", e == nil && p != nil, func() bool {
					c := false
					ap.OnOrderedCollection(v, func(*ap.OrderedCollection) error { c = true; return nil })
					return c
				})
			}
			{
				p, e := ap.ToOrderedCollectionPage(v)
				probe("OrderedCollectionPage", e == nil && p != nil, func() bool {
					c := false
					ap.OnOrderedCollectionPage(v, func(*ap.OrderedCollectionPage) error { c = true; return nil })
					return c
				})
			}
			{
				p, e := ap.ToPlace(v)
				probe("Place", e == nil && p != nil, func() bool { c := false; ap.OnPlace(v, func(*ap.Place) error { c = true; return nil }); return c })
			}
			{
				p, e := ap.ToProfile(v)
				probe("Profile", e == nil && p != nil, func() bool { c := false; ap.OnProfile(v, func(*ap.Profile) error { c = true; return nil }); return c })
			}
			{
				p, e := ap.ToRelationship(v)
				probe("Relationship", e == nil && p != nil, func() bool {
					c := false
					ap.OnRelationship(v, func(*ap.Relationship) error { c = true; return nil })
					return c
				})
			}
			{
				p, e := ap.ToTombstone(v)
				probe("Tombstone", e == nil && p != nil, func() bool {
					c := false
					ap.OnTombstone(v, func(*ap.Tombstone) error { c = true; return nil })
					return c
				})
			}
			t.Ops(2 * len(hs))
			for _, h := range hs {
				if h.toOK != h.onCalled {
					t.Fail(class+"|helper-inconsistent:"+h.name, "To%s ok=%v but On%s called back=%v for a %s", h.name, h.toOK, h.name, h.onCalled, entry[0])
				}
				if h.name == entry[0] && !h.toOK {
					t.Fail(class+"|own-helper-refuses:"+h.name, "To%s/On%s refuse the value the registry creates for %q", h.name, h.name, name)
				}
			}
			collIntf := false
			ap.OnCollectionIntf(v, func(ap.CollectionInterface) error { collIntf = true; return nil })
			if collIntf != wantColl {
				t.Fail(class+"|collection-interface", "OnCollectionIntf called back=%v for %q", collIntf, name)
			}
		})
	}
}

func c07Label(name string) string {
	if name == "" {
		return "<empty>"
	}
	return name
}
