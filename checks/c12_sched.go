//go:build verif

package checks

import (
	"encoding/json"
	"fmt"
	"os"
	"reflect"
	"strings"

	ap "github.com/go-ap/activitypub"

	"verif/internal/engine"
	"verif/internal/scen"
	"verif/internal/snap"
	"verif/internal/universe"
)

// ---------------------------------------------------------------------------------------
// cooperative scheduler: one goroutine runs at a time, control changes hands only at VerifPoint calls and at thread ends.

type c12Thread struct {
	id     int
	op     scen.Op
	wake   chan struct{}
	done   bool
	result string
	panic  string
}

type c12Decision struct {
	n       int  // number of enabled threads; canonical order: the running thread first (if still enabled), then ascending ids
	chosen  int  // index into that order
	atYield bool // the running thread was still enabled: choosing another one is a preemption
	point   int
}

type c12Sched struct {
	threads  []*c12Thread
	cur      int
	choices  []int
	pos      int
	trace    []c12Decision
	steps    []int32 // (thread<<20 | point) sequence, for the determinism check
	finished chan struct{}
	harness  string
	onPoint  func()
	onSwitch func() // called right before another thread is given the processor
}

func (s *c12Sched) decide(self *c12Thread, pid int, selfEnabled bool) {
	n := 0
	if selfEnabled {
		n++
	}
	for _, o := range s.threads {
		if !o.done && (self == nil || o.id != self.id) {
			n++
		}
	}
	if n == 0 {
		close(s.finished)
		return
	}
	choice := 0
	if n > 1 {
		if s.pos < len(s.choices) {
			choice = s.choices[s.pos]
			if choice >= n {
				s.harness = fmt.Sprintf("replay diverged at decision %d: choice %d of %d enabled threads", s.pos, choice, n)
				choice = 0
			}
		}
		s.trace = append(s.trace, c12Decision{n: n, chosen: choice, atYield: selfEnabled, point: pid})
		s.pos++
	}
	if selfEnabled && choice == 0 {
		return
	}
	// the choice-th enabled thread in canonical order
	k := choice
	if selfEnabled {
		k--
	}
	next := -1
	for _, o := range s.threads {
		if !o.done && (self == nil || o.id != self.id) {
			if k == 0 {
				next = o.id
				break
			}
			k--
		}
	}
	if s.onSwitch != nil {
		s.onSwitch()
	}
	s.cur = next
	s.threads[next].wake <- struct{}{}
	if selfEnabled {
		<-self.wake
	}
}

func (s *c12Sched) point(pid int) {
	self := s.threads[s.cur]
	s.steps = append(s.steps, int32(self.id)<<20|int32(pid))
	if s.onPoint != nil {
		s.onPoint()
	}
	s.decide(self, pid, true)
}

type c12Exec struct {
	trace         []c12Decision
	steps         []int32
	results       []string
	panics        []string
	harness       string
	sharedChanged []string
	midChanges    int
	globalsNote   int // observations of a changed package-level variable (a cache, a pool): noted, not a violation by itself
}

// c12Execute runs one schedule of a fresh instance of scenario #si.
func c12Execute(si int, choices []int, snapshotEveryPoint bool) c12Exec {
	sc := scen.GetSmall(si)
	s := &c12Sched{choices: choices, finished: make(chan struct{})}
	shared := make([]any, 0, len(sc.Shared)+1)
	for _, v := range sc.Shared {
		shared = append(shared, v)
	}
	sharedArgs := append([]any{}, shared...)
	beforeArgs := snap.Take(false, sharedArgs...)
	shared = append(shared, c12Globals()...)
	before := snap.Take(false, shared...)
	var ex c12Exec
	if snapshotEveryPoint {
		// S9 has ~1 300 yield points per execution (one per byte of the long texts): its mid-execution snapshots are taken at
		// every 8th yield point; the snapshot at the end of every execution is always taken
		stride, n := 1, 0
		if si == 9 {
			stride = 8
		}
		s.onPoint = func() {
			n++
			if n%stride != 0 {
				return
			}
			// at every yield point: the shared argument values; the package-level variables are compared whenever the
			// processor changes hands (below) and at the end - a change to one of them that is undone before any other
			// thread runs cannot be observed by anyone in this schedule
			if snap.Take(false, sharedArgs...).Hash != beforeArgs.Hash {
				ex.midChanges++
			}
		}
	}
	if snapshotEveryPoint {
		s.onSwitch = func() {
			if snap.Take(false, shared...).Hash != before.Hash {
				ex.globalsNote++
			}
		}
	}
	for i, op := range sc.Threads {
		t := &c12Thread{id: i, op: op, wake: make(chan struct{})}
		s.threads = append(s.threads, t)
		go func() {
			<-t.wake
			func() {
				defer func() {
					if r := recover(); r != nil {
						t.panic = fmt.Sprint(r)
					}
				}()
				t.result = t.op.Run()
			}()
			t.done = true
			s.decide(t, -1, false)
		}()
	}
	old := ap.VerifPoint
	ap.VerifPoint = s.point
	s.decide(nil, -1, false) // which thread starts is the first decision
	<-s.finished
	ap.VerifPoint = old
	ex.trace, ex.steps, ex.harness = s.trace, s.steps, s.harness
	for _, t := range s.threads {
		ex.results = append(ex.results, t.result)
		ex.panics = append(ex.panics, t.panic)
	}
	// the shared VALUES must read as before; a changed package-level variable (a correctly synchronised cache would be one) is
	// only noted: whether it matters is decided by the results (compared with the sequential ones on every schedule) and by the
	// race detector pass
	if snap.Take(false, sharedArgs...).Hash != beforeArgs.Hash {
		ex.sharedChanged = []string{"the deep snapshot of the shared values changed during the execution"}
	} else if snap.Take(false, shared...).Hash != before.Hash {
		ex.globalsNote++
	}
	return ex
}

func c12Choices(tr []c12Decision, upto int) []int {
	out := make([]int, upto)
	for i := 0; i < upto; i++ {
		out[i] = tr[i].chosen
	}
	return out
}

func c12Preemptions(tr []c12Decision, upto int) int {
	n := 0
	for i := 0; i < upto; i++ {
		if tr[i].atYield && tr[i].chosen != 0 {
			n++
		}
	}
	return n
}

type c12Explorer struct {
	t        *engine.T
	si       int
	name     string
	want     []string
	bound    int
	runs     int64
	maxRuns  int64
	capped   bool
	outcomes map[string]bool
}

func (e *c12Explorer) check(ex c12Exec, choices []int) {
	pre := c12Preemptions(ex.trace, len(ex.trace))
	key := func(sym string) string { return fmt.Sprintf("C12|sched|%s|%s", strings.Fields(e.name)[0], sym) }
	sched := fmt.Sprintf("schedule (choice per decision, %d preemptions): %v", pre, c12Choices(ex.trace, len(ex.trace)))
	if ex.harness != "" {
		e.t.Fail(key("harness-divergence"), "%s\n%s", ex.harness, sched)
	}
	for i, r := range ex.results {
		if ex.panics[i] != "" {
			e.t.Fail(key("panic"), "thread %d (%s) panicked: %s\n%s", i, scen.GetSmall(e.si).Threads[i].Name, ex.panics[i], sched)
			continue
		}
		if r != e.want[i] {
			e.t.Fail(key("result-differs-from-sequential"), "thread %d (%s) returned %.400s\nsequentially it returns %.400s\n%s", i, scen.GetSmall(e.si).Threads[i].Name, r, e.want[i], sched)
		}
	}
	if len(ex.sharedChanged) > 0 {
		e.t.Fail(key("shared-value-modified"), "%s\n%s", ex.sharedChanged[0], sched)
	}
	if ex.midChanges > 0 {
		e.t.Fail(key("shared-value-modified-mid-execution"), "the shared snapshot differed from the initial one at %d yield points\n%s", ex.midChanges, sched)
	}
	if ex.globalsNote > 0 {
		e.t.Count("executions_in_which_a_package_level_variable_changed", 1)
	}
	e.outcomes[strings.Join(ex.results, "\x00")] = true
	e.t.Ops(len(ex.steps))
}

// explore runs the schedule given by prefix (then always choice 0) and recurses into every alternative after the prefix.
func (e *c12Explorer) explore(prefix []int) {
	if e.maxRuns > 0 && e.runs >= e.maxRuns {
		e.capped = true
		return
	}
	e.t.Step(func() string { return fmt.Sprintf("schedule prefix %v", prefix) })
	ex := c12Execute(e.si, prefix, false)
	e.runs++
	e.check(ex, prefix)
	used := c12Preemptions(ex.trace, len(prefix))
	for i := len(prefix); i < len(ex.trace); i++ {
		d := ex.trace[i]
		if i > len(prefix) && ex.trace[i-1].atYield && ex.trace[i-1].chosen != 0 {
			used++
		}
		cost := 0
		if d.atYield {
			cost = 1
		}
		if used+cost > e.bound {
			continue
		}
		for alt := 1; alt < d.n; alt++ {
			e.explore(append(c12Choices(ex.trace, i), alt))
		}
	}
}

func c12Run(c *engine.Ctx) {
	scs := scen.Scenarios()
	for si, sc := range scs {
		si, name := si, sc.Name
		if f := os.Getenv("VERIF_C12_SCEN"); f != "" && !strings.HasPrefix(name, f+" ") {
			continue // development aid: explore one scenario only
		}
		bound := 2
		if len(sc.Threads) > 2 {
			bound = 1
			if !c.Quick() {
				bound = 2
			}
		} else if !c.Quick() && (si <= 3 || si == 8) {
			bound = 3
		}
		if si == 9 {
			// long texts: several hundred yield points per thread
			bound = 1
			if !c.Quick() {
				bound = 2
			}
		}
		// sequential reference (computed twice: the observations must be deterministic)
		var want []string
		for _, op := range scen.GetSmall(si).Threads {
			want = append(want, op.Run())
		}
		for k, op := range scen.GetSmall(si).Threads {
			if op.Run() != want[k] {
				want[k] = "<NONDETERMINISTIC OBSERVATION>"
			}
		}
		class := "C12|sched|" + strings.Fields(name)[0]
		c.Do(class, func() string { return name + ": default schedule, replayed twice, snapshot at every yield point" }, func(t *engine.T) {
			e := &c12Explorer{t: t, si: si, name: name, want: want, bound: 0, outcomes: map[string]bool{}}
			for k, w := range want {
				if w == "<NONDETERMINISTIC OBSERVATION>" {
					t.Fail(class+"|harness-nondeterministic-observation", "the sequential observation of thread %d is not deterministic", k)
				}
			}
			a := c12Execute(si, nil, true)
			b := c12Execute(si, nil, true)
			if fmt.Sprint(a.steps) != fmt.Sprint(b.steps) {
				t.Fail(class+"|harness-replay-differs", "the same schedule produced different step sequences (%d vs %d steps)", len(a.steps), len(b.steps))
			}
			e.check(a, nil)
			t.Count("yield_points_in_default_schedule", int64(len(a.steps)))
			t.Count("decisions_in_default_schedule", int64(len(a.trace)))
		})
		// which thread starts is decision 0 (free); below it one case per first later deviation, so that the work spreads over the workers
		for start := 0; start < len(sc.Threads); start++ {
			start := start
			def := c12Execute(si, []int{start}, false)
			c.Do(class, func() string { return fmt.Sprintf("%s: thread %d starts, no further deviation", name, start) }, func(t *engine.T) {
				e := &c12Explorer{t: t, si: si, name: name, want: want, bound: bound, outcomes: map[string]bool{}}
				ex := c12Execute(si, []int{start}, true)
				e.check(ex, []int{start})
				t.AddEvals(1, 1)
				t.Count("schedules", 1)
			})
			for i := 1; i < len(def.trace); i++ {
				d := def.trace[i]
				for alt := 1; alt < d.n; alt++ {
					i, alt, d := i, alt, d
					cost := 0
					if d.atYield {
						cost = 1
					}
					if cost > bound {
						continue
					}
					c.Do(class, func() string {
						return fmt.Sprintf("%s: thread %d starts; all schedules with <= %d preemptions whose first deviation is choice %d at decision %d (yield point %d)", name, start, bound, alt, i, d.point)
					}, func(t *engine.T) {
						e := &c12Explorer{t: t, si: si, name: name, want: want, bound: bound, outcomes: map[string]bool{}, maxRuns: 2000000}
						prefix := append(c12Choices(def.trace, i), alt)
						// schedules with <= 1 preemption: also take the shared snapshot at every yield point
						ex := c12Execute(si, prefix, true)
						e.check(ex, prefix)
						e.explore(prefix)
						t.AddEvals(e.runs, e.runs)
						t.Count("schedules", e.runs)
						t.Count(fmt.Sprintf("schedules_%s", strings.Fields(name)[0]), e.runs)
						if e.capped {
							t.Count("subtrees_capped", 1)
						}
						if len(e.outcomes) > 1 {
							t.Count("subtrees_with_more_than_one_outcome", 1)
						}
					})
				}
			}
		}
	}
	if os.Getenv("VERIF_C12_SCEN") == "" {
		c12Sequential(c)
	}
}

// ---------------------------------------------------------------------------------------
// (a) sequential non-interference and result stability

type c12Op struct {
	name string
	run  func(x ap.Item, twin ap.Item) any
}

// c12LeafMethods calls every read-only method of the non-item leaf types found in the fields of x (language lists and their
// entries, texts, tags, IRIs, media types, type names, nested Source / PublicKey / Endpoints): the marshalers, String/Format,
// the observers. These are exported entry points of their own; a value reached through them must stay untouched as well.
func c12LeafMethods(x ap.Item) string {
	rv := reflect.ValueOf(x)
	if rv.Kind() == reflect.Pointer {
		if rv.IsNil() {
			return ""
		}
		rv = rv.Elem()
	}
	if rv.Kind() != reflect.Struct {
		return ""
	}
	var out strings.Builder
	// every niladic read-only method the type has (value and pointer receivers)
	names := []string{"MarshalJSON", "MarshalText", "MarshalBinary", "GobEncode", "String", "Count", "First", "MimeType", "URL"}
	call := func(v reflect.Value) {
		for _, recv := range []reflect.Value{v, addrOf(v)} {
			if !recv.IsValid() {
				continue
			}
			for _, nm := range names {
				m := recv.MethodByName(nm)
				if !m.IsValid() || m.Type().NumIn() != 0 {
					continue
				}
				for _, r := range m.Call(nil) {
					fmt.Fprintf(&out, "%v;", r.Interface())
				}
			}
		}
		fmt.Fprintf(&out, "%s|%v|%q;", v.Interface(), v.Interface(), v.Interface())
	}
	nlv := func(v reflect.Value) {
		call(v)
		n := v.Interface().(ap.NaturalLanguageValues)
		fmt.Fprintf(&out, "%v;", n.Equals(n))
		for i := 0; i < v.Len(); i++ {
			e := v.Index(i)
			call(e)
			call(e.FieldByName("Value"))
			call(e.FieldByName("Ref"))
			out.Write(n.Get(n[i].Ref))
			fmt.Fprintf(&out, "%v;", n[i].Value.Equals(n[i].Value))
		}
	}
	for i := 0; i < rv.NumField(); i++ {
		f := rv.Field(i)
		switch v := f.Interface().(type) {
		case ap.NaturalLanguageValues:
			nlv(f)
		case ap.Source:
			call(f)
			nlv(f.FieldByName("Content"))
			call(f.FieldByName("MediaType"))
		case ap.PublicKey:
			call(f)
		case *ap.Endpoints:
			if v != nil {
				call(f)
			}
		case ap.IRI:
			call(f)
			fmt.Fprintf(&out, "%v;", v.Equals(v, true))
		case ap.MimeType, ap.ActivityVocabularyType, ap.LangRef:
			call(f)
		}
	}
	return out.String()
}

func addrOf(v reflect.Value) reflect.Value {
	if v.CanAddr() {
		return v.Addr()
	}
	return reflect.Value{}
}

func c12Ops() []c12Op {
	ro := func(any) error { return nil }
	_ = ro
	return []c12Op{
		{"MarshalJSON", func(x, _ ap.Item) any { b, _ := ap.MarshalJSON(x); return b }},
		{"T.MarshalJSON", func(x, _ ap.Item) any {
			if m, ok := x.(json.Marshaler); ok {
				b, _ := m.MarshalJSON()
				return b
			}
			return nil
		}},
		{"GobEncode", func(x, _ ap.Item) any { b, _ := ap.GobEncode(x); return b }},
		{"T.GobEncode", func(x, _ ap.Item) any {
			if m, ok := x.(interface{ GobEncode() ([]byte, error) }); ok {
				b, _ := m.GobEncode()
				return b
			}
			return nil
		}},
		{"T.MarshalBinary", func(x, _ ap.Item) any {
			if m, ok := x.(interface{ MarshalBinary() ([]byte, error) }); ok {
				b, _ := m.MarshalBinary()
				return b
			}
			return nil
		}},
		{"leaf-methods", func(x, _ ap.Item) any { return c12LeafMethods(x) }},
		{"ItemsEqual(x,twin)", func(x, tw ap.Item) any { return ap.ItemsEqual(x, tw) }},
		{"ItemsEqual(twin,x)", func(x, tw ap.Item) any { return ap.ItemsEqual(tw, x) }},
		{"ItemsEqual(x,x)", func(x, _ ap.Item) any { return ap.ItemsEqual(x, x) }},
		{"Sprintf", func(x, _ ap.Item) any { return fmt.Sprintf("%s %v %+v %q", x, x, x, x) }},
		{"IsNil/NotEmpty/Is*", func(x, _ ap.Item) any {
			return []bool{ap.IsNil(x), ap.NotEmpty(x), ap.IsObject(x), ap.IsLink(x), ap.IsIRI(x), ap.IsIRIs(x), ap.IsItemCollection(x), x.IsObject(), x.IsLink(), x.IsCollection()}
		}},
		{"GetID/GetLink/GetType", func(x, _ ap.Item) any { return fmt.Sprint(x.GetID(), x.GetLink(), x.GetType()) }},
		{"type-predicates", func(x, _ ap.Item) any {
			t := x.GetType()
			return []bool{ap.ActivityTypes.Contains(t), ap.ActorTypes.Contains(t), ap.ObjectTypes.Contains(t), ap.CollectionTypes.Contains(t), ap.LinkTypes.Contains(t), ap.Types.Contains(t)}
		}},
		{"DerefItem", func(x, _ ap.Item) any { return len(ap.DerefItem(x)) }},
		{"OnObject(read)", func(x, _ ap.Item) any {
			n := 0
			ap.OnObject(x, func(o *ap.Object) error {
				if o != nil { // a nil-like item (the empty IRI) is handed over as a nil pointer (C20)
					n += len(o.ID) + len(o.To)
				}
				return nil
			})
			return n
		}},
		{"OnActivity(read)", func(x, _ ap.Item) any {
			n := 0
			ap.OnActivity(x, func(o *ap.Activity) error {
				if o != nil {
					n += len(o.ID)
				}
				return nil
			})
			return n
		}},
		{"OnIntransitiveActivity(read)", func(x, _ ap.Item) any {
			n := 0
			ap.OnIntransitiveActivity(x, func(o *ap.IntransitiveActivity) error {
				if o != nil {
					n += len(o.ID)
				}
				return nil
			})
			return n
		}},
		{"OnActor(read)", func(x, _ ap.Item) any {
			n := 0
			ap.OnActor(x, func(o *ap.Actor) error {
				if o != nil {
					n += len(o.ID)
				}
				return nil
			})
			return n
		}},
		{"OnLink(read)", func(x, _ ap.Item) any {
			n := 0
			ap.OnLink(x, func(o *ap.Link) error {
				if o != nil {
					n += len(o.ID)
				}
				return nil
			})
			return n
		}},
		{"OnCollectionIntf(read)", func(x, _ ap.Item) any {
			n := 0
			ap.OnCollectionIntf(x, func(col ap.CollectionInterface) error {
				if col == nil || reflect.ValueOf(col).Kind() == reflect.Pointer && reflect.ValueOf(col).IsNil() {
					return nil
				}
				n += int(col.Count()) + len(col.Collection())
				col.Contains(ap.IRI("https://example.com/none"))
				return nil
			})
			return n
		}},
		{"OnItemCollection(read)", func(x, _ ap.Item) any {
			n := 0
			ap.OnItemCollection(x, func(col *ap.ItemCollection) error {
				if col != nil {
					n += len(*col) + len(col.IRIs())
					col.First()
					col.Normalize()
					col.ItemsMatch(ap.IRI("https://example.com/none"))
				}
				return nil
			})
			return n
		}},
		{"To*", func(x, _ ap.Item) any {
			a, _ := ap.ToObject(x)
			b, _ := ap.ToActivity(x)
			cc, _ := ap.ToCollection(x)
			d, _ := ap.ToIntransitiveActivity(x)
			return fmt.Sprint(a != nil, b != nil, cc != nil, d != nil)
		}},
		{"ItemOrderTimestamp", func(x, tw ap.Item) any { return []bool{ap.ItemOrderTimestamp(x, tw), ap.ItemOrderTimestamp(tw, x)} }},
		{"CollectionPath.IRI/Of", func(x, _ ap.Item) any {
			return fmt.Sprint(ap.Inbox.IRI(x), ap.Likes.IRI(x), ap.Replies.Of(x), ap.Followers.Of(x))
		}},
		{"Split/IRI.Equals/Contains", func(x, _ ap.Item) any {
			l := x.GetLink()
			o, cp := ap.Split(l)
			return fmt.Sprint(o, cp, l.Equals(l, true), l.Contains(o, false), ap.ValidCollectionIRI(l))
		}},
		{"FlattenToIRI", func(x, _ ap.Item) any { return fmt.Sprint(ap.FlattenToIRI(x) != nil) }},
	}
}

type c12Bare struct {
	name string
	mk   func() ap.Item
}

func c12BareItems() []c12Bare {
	iris := func() ap.IRIs {
		l := make(ap.IRIs, 0, 8) // spare capacity: an append into it is a write
		return append(l, "https://example.com/1", "", "https://example.com/2", "-", "https://example.com/1")
	}
	items := func() ap.ItemCollection {
		l := make(ap.ItemCollection, 0, 8)
		return append(l, ap.IRI("https://example.com/1"), nil, &ap.Object{ID: "https://example.com/2", Type: ap.NoteType, To: ap.ItemCollection{ap.IRI("https://example.com/3")}},
			ap.IRI(""), ap.IRI("https://example.com/1"), (*ap.Object)(nil))
	}
	return []c12Bare{
		{"IRI", func() ap.Item { return ap.IRI("https://example.com/x?b=2&a=1#f") }},
		{"IRI-empty", func() ap.Item { return ap.IRI("") }},
		{"IRIs[5, empty and - members]", func() ap.Item { return iris() }},
		{"*IRIs[5, empty and - members]", func() ap.Item { l := iris(); return &l }},
		{"*IRIs[0]", func() ap.Item { l := ap.IRIs{}; return &l }},
		{"*IRIs[2]", func() ap.Item { l := ap.IRIs{"https://example.com/1", "https://example.com/2"}; return &l }},
		{"ItemCollection[6, nil members]", func() ap.Item { return items() }},
		{"*ItemCollection[6, nil members]", func() ap.Item { l := items(); return &l }},
		{"*ItemCollection[0]", func() ap.Item { l := ap.ItemCollection{}; return &l }},
	}
}

func c12Sequential(c *engine.Ctx) {
	ops := c12Ops()
	var prev []byte // result of the previous encode operation, and a private copy of it
	var prevCopy []byte
	var prevWhat string
	var oneItem func(class, name string, distinct bool, mk func() ap.Item)
	one := func(r universe.Recipe) {
		oneItem("C12|sequential|"+r.Struct.Name, r.String(), len(r.Sets) > 0, r.Item)
	}
	oneItem = func(class, name string, distinct bool, mk func() ap.Item) {
		c.Do(class, func() string { return "every read-only operation on " + name }, func(t *engine.T) {
			x, twin := mk(), mk()
			t.Distinct(distinct)
			for _, op := range ops {
				before := snap.Take(false, x, twin)
				gBefore := snap.Take(false, c12Globals()...)
				res := op.run(x, twin)
				t.Ops(1)
				after := snap.Take(false, x, twin)
				if snap.Take(false, c12Globals()...).Hash != gBefore.Hash {
					// a package-level variable changed (a cache, a pool, a lazily built table): not a violation by itself
					t.Count("operations_after_which_a_package_level_variable_had_changed", 1)
					t.Outcome("package-level variable changed by " + op.name)
				}
				if before.Hash != after.Hash {
					// find out what changed: redo on fresh values with verbose snapshots
					y, tw2 := mk(), mk()
					vb := snap.Take(true, y, tw2)
					op.run(y, tw2)
					va := snap.Take(true, y, tw2)
					d := snap.Diff(vb, va)
					where := "?"
					if len(d) > 0 {
						where = pathClass(d[0])
					}
					t.Fail(fmt.Sprintf("C12|sequential|%s|argument-modified|%s", op.name, where), "%s modified its argument: %v", op.name, d)
				}
				// result stability: the bytes returned by an earlier call must not change when a later call runs
				if prev != nil && string(prev) != string(prevCopy) {
					t.Fail("C12|sequential|result-not-stable|"+prevWhat, "the bytes returned by an earlier %s changed after %s ran: %.200q -> %.200q", prevWhat, op.name, prevCopy, prev)
					prev = nil
				}
				if b, ok := res.([]byte); ok && len(b) > 0 {
					prev, prevCopy, prevWhat = b, append([]byte(nil), b...), op.name
				}
			}
		})
	}
	// arguments that are not vocabulary structs: bare IRIs, IRI lists and item lists by value and by pointer - with empty and "-"
	// members, nil members, spare capacity - as every helper that accepts an item accepts them too
	for _, bi := range c12BareItems() {
		oneItem("C12|sequential|"+strings.SplitN(bi.name, "[", 2)[0], bi.name, true, bi.mk)
	}
	for i := range universe.Structs {
		s := &universe.Structs[i]
		universe.Level0(s, one)
		universe.Level1(s, universe.AnyCodec, c.Quick(), one)
		universe.Saturated(s, universe.AnyCodec, one)
		universe.Level1(s, universe.AnyCodec, true, func(r universe.Recipe) { r.Value = true; one(r) })
	}
	if !c.Quick() {
		var emb []universe.Shape
		universe.Depth2Embedded(universe.AnyCodec, true, func(sh universe.Shape) { emb = append(emb, sh) })
		for i := range universe.Structs {
			s := &universe.Structs[i]
			for _, f := range s.ItemFields() {
				for _, sh := range emb {
					one(universe.Recipe{Struct: s, TypeName: s.SpecificName(), Sets: []universe.Set{{Field: f, Shape: universe.WrapForField(f, sh)}}})
				}
			}
		}
	}
	// bare lists and IRIs, and values whose lists hold nil / typed-nil / empty members (an encoder that compacts or filters
	// a list in place only shows on such lists)
	for _, mk := range []func() ap.Item{
		func() ap.Item {
			return ap.ItemCollection{ap.IRI("https://example.com/1"), nil, &ap.Object{ID: "https://example.com/2", Type: ap.NoteType}, (*ap.Object)(nil), ap.IRI(""), ap.IRI("https://example.com/3")}
		},
		func() ap.Item {
			nilly := func() ap.ItemCollection {
				return ap.ItemCollection{nil, ap.IRI("https://example.com/a"), (*ap.Actor)(nil), &ap.Object{}, ap.IRI("https://example.com/b")}
			}
			return &ap.Activity{ID: "https://example.com/act", Type: ap.CreateType, To: nilly(), CC: nilly(), Bto: nilly(), BCC: nilly(), Audience: nilly(), Tag: nilly(),
				Object: nilly(), Actor: &ap.Actor{ID: "https://example.com/p", Type: ap.PersonType, Streams: nilly()}}
		},
		func() ap.Item {
			return &ap.OrderedCollection{ID: "https://example.com/oc", Type: ap.OrderedCollectionType, OrderedItems: ap.ItemCollection{(*ap.Object)(nil), ap.IRI("https://example.com/a"), nil, ap.IRI("https://example.com/b")}}
		},
		func() ap.Item { return ap.IRI("https://example.com/x?a=1#f") },
		// language lists of every unusual make-up (an explicit "und" beside an untagged entry, repeated tags, ill-formed UTF-8,
		// one untagged + one tagged, subtags) in every text property at once
		func() ap.Item { return c12TextObject("nlv-und+untagged") },
		func() ap.Item { return c12TextObject("nlv-repeated-tag") },
		func() ap.Item { return c12TextObject("nlv-ill-formed") },
		func() ap.Item { return c12TextObject("nlv-untagged+tagged") },
		func() ap.Item { return c12TextObject("nlv-tagged+untagged") },
		func() ap.Item { return c12TextObject("nlv-subtags") },
		func() ap.Item { return c12TextObject("nlv-bracket") },
		func() ap.Item { return c12TextObject("nlv-4097") },
		func() ap.Item {
			col := make(ap.ItemCollection, 2, 8)
			col[0], col[1] = ap.IRI("https://example.com/1"), &ap.Object{ID: "https://example.com/2", Type: ap.NoteType}
			return col
		},
		func() ap.Item {
			iris := make(ap.IRIs, 2, 8)
			iris[0], iris[1] = "https://example.com/1", "https://example.com/2"
			return iris
		},
	} {
		mk := mk
		c.Do("C12|sequential|bare", func() string {
			return fmt.Sprintf("every read-only operation on a %T (bare list / spare capacity / nil and empty list members)", mk())
		}, func(t *engine.T) {
			t.Distinct(true)
			x, twin := mk(), mk()
			for _, op := range ops {
				before := snap.Take(false, x, twin)
				op.run(x, twin)
				after := snap.Take(false, x, twin)
				if before.Hash != after.Hash {
					t.Fail(fmt.Sprintf("C12|sequential|%s|argument-modified|bare-%s", op.name, reflect.TypeOf(x).String()), "%s modified a %T (lists with nil/empty members or spare capacity)", op.name, x)
				}
				t.Ops(1)
			}
		})
	}
}

// c12TextObject is an actor whose name, summary, content, preferredUsername and source.content all hold the named shape.
func c12TextObject(shape string) ap.Item {
	for _, sh := range universe.Shapes(universe.KNLV) {
		if sh.Name == shape {
			mk := func() ap.NaturalLanguageValues {
				return sh.Build(&universe.Gen{}).Interface().(ap.NaturalLanguageValues)
			}
			return &ap.Actor{ID: "https://example.com/texts", Type: ap.PersonType, Name: mk(), Summary: mk(), Content: mk(), PreferredUsername: mk(),
				Source: ap.Source{Content: mk(), MediaType: "text/plain"}, Tag: ap.ItemCollection{&ap.Object{Type: ap.NoteType, Name: mk()}}}
		}
	}
	panic("no such language-list shape: " + shape)
}

// pathClass strips indices and addresses from a snapshot diff line, for finding keys.
func pathClass(line string) string {
	p := line
	if i := strings.Index(p, " = "); i > 0 {
		p = p[:i]
	}
	p = strings.TrimPrefix(p, "before: ")
	var b strings.Builder
	skip := false
	for _, r := range p {
		switch {
		case r == '[':
			skip = true
		case r == ']':
			skip = false
		case !skip:
			b.WriteRune(r)
		}
	}
	return b.String()
}

var c12GlobalPtrs []any

// c12Globals returns the addresses of the package-level variables of the library in a stable order (the map VerifGlobals
// returns is a fresh one on every call, so it is read once).
func c12Globals() []any {
	if c12GlobalPtrs == nil {
		m := ap.VerifGlobals()
		names := make([]string, 0, len(m))
		for n := range m {
			if n == "VerifPoint" {
				continue // the explorer itself swaps this hook
			}
			names = append(names, n)
		}
		sortStrings(names)
		for _, n := range names {
			c12GlobalPtrs = append(c12GlobalPtrs, m[n])
		}
	}
	return c12GlobalPtrs
}
