package checks

import (
	"fmt"
	"reflect"
	"strings"
	"time"

	ap "github.com/go-ap/activitypub"

	"verif/internal/canon"
	"verif/internal/engine"
	"verif/internal/universe"
)

// C16 — flattening replaces embedded items by their own ids and nothing else (DESIGN.md §3 C16, reading D8).

type c16Host struct {
	name   string
	st     string
	typ    string
	fn     string
	single []string // single-item flattened positions (field names)
}

var (
	c16ActSingles = []string{"Actor", "Target", "Result", "Origin", "Instrument"}
	c16CoreFlat   = []string{"AttributedTo", "Replies", "Likes", "Shares"} // through Flatten()
	c16Lists      = []string{"To", "Bto", "CC", "BCC", "Audience"}
)

func c16Hosts() []c16Host {
	act := append(append([]string{"Object"}, c16ActSingles...), c16CoreFlat...)
	intr := append(append([]string{}, c16ActSingles...), c16CoreFlat...)
	return []c16Host{
		{"Activity/FlattenProperties", "Activity", "Like", "FlattenProperties", act},
		{"Activity/FlattenActivityProperties", "Activity", "Activity", "FlattenActivityProperties", act},
		{"IntransitiveActivity/FlattenProperties", "IntransitiveActivity", "Arrive", "FlattenProperties", intr},
		{"IntransitiveActivity/FlattenIntransitiveActivityProperties", "IntransitiveActivity", "IntransitiveActivity", "FlattenIntransitiveActivityProperties", intr},
		{"Question/FlattenProperties", "Question", "Question", "FlattenProperties", intr},
		{"Object/FlattenProperties", "Object", "Note", "FlattenProperties", c16CoreFlat},
		{"Object/FlattenObjectProperties", "Object", "Object", "FlattenObjectProperties", c16CoreFlat},
		{"Actor/FlattenProperties", "Actor", "Person", "FlattenProperties", c16CoreFlat},
		{"Actor/FlattenActorProperties", "Actor", "Actor", "FlattenActorProperties", c16CoreFlat},
	}
}

func c16Apply(h c16Host, v any) {
	switch h.fn {
	case "FlattenProperties":
		ap.FlattenProperties(v.(ap.Item))
	case "FlattenActivityProperties":
		ap.FlattenActivityProperties(v.(*ap.Activity))
	case "FlattenIntransitiveActivityProperties":
		ap.FlattenIntransitiveActivityProperties(v.(*ap.IntransitiveActivity))
	case "FlattenObjectProperties":
		ap.FlattenObjectProperties(v.(*ap.Object))
	case "FlattenActorProperties":
		ap.FlattenActorProperties(v.(*ap.Actor))
	}
}

// an entry of a flattened position
type c16Entry struct {
	name  string
	ident string // identity for de-duplication ("" = never a duplicate)
	want  string // descriptor expected after flattening
	mk    func() ap.Item
	coll  bool // embedded collection / list: only the global rules are judged
}

func c16Desc(it ap.Item) string {
	if it == nil {
		return "<nil>"
	}
	switch v := it.(type) {
	case ap.IRI:
		return "iri:" + string(v)
	case ap.ItemCollection:
		parts := make([]string, len(v))
		for i, e := range v {
			parts[i] = c16Desc(e)
		}
		return "[" + strings.Join(parts, " ") + "]"
	}
	n := canon.Of(it, canon.Raw)
	return structNameOf(it) + ":" + n.String()
}

const (
	c16IDa = "https://example.com/a"
	c16IDb = "https://example.com/b"
)

func c16Entries() []c16Entry {
	name := func(s string) ap.NaturalLanguageValues {
		return ap.NaturalLanguageValues{{Ref: "-", Value: ap.Content(s)}}
	}
	es := []c16Entry{
		{name: "iri-a", ident: c16IDa, mk: func() ap.Item { return ap.IRI(c16IDa) }},
		{name: "iri-b", ident: c16IDb, mk: func() ap.Item { return ap.IRI(c16IDb) }},
		{name: "*obj-a", ident: c16IDa, want: "iri:" + c16IDa, mk: func() ap.Item { return &ap.Object{ID: c16IDa, Type: ap.NoteType, Name: name("A")} }},
		{name: "*obj-b", ident: c16IDb, want: "iri:" + c16IDb, mk: func() ap.Item { return &ap.Object{ID: c16IDb, Type: ap.ArticleType} }},
		{name: "obj-b-value", ident: c16IDb, want: "iri:" + c16IDb, mk: func() ap.Item { return ap.Object{ID: c16IDb, Type: ap.NoteType} }},
		{name: "*actor-a", ident: c16IDa, want: "iri:" + c16IDa, mk: func() ap.Item { return &ap.Actor{ID: c16IDa, Type: ap.PersonType, PreferredUsername: name("ann")} }},
		{name: "*activity-b", ident: c16IDb, want: "iri:" + c16IDb, mk: func() ap.Item { return &ap.Activity{ID: c16IDb, Type: ap.CreateType, Object: ap.IRI(c16IDa)} }},
		{name: "*obj-noid", ident: "", mk: func() ap.Item { return &ap.Object{Type: ap.NoteType, Name: name("anonymous")} }},
		{name: "*obj-noid2", ident: "", mk: func() ap.Item { return &ap.Object{Type: ap.NoteType, Name: name("another anonymous")} }},
		{name: "*link", ident: "https://example.com/l", mk: func() ap.Item {
			return &ap.Link{ID: "https://example.com/l", Type: ap.MentionType, Href: "https://example.com/h"}
		}},
		{name: "*link-noid", ident: "", mk: func() ap.Item { return &ap.Link{Type: ap.LinkType, Href: "https://example.com/h2"} }},
		// plain IRIs in other legal spellings stay exactly as they are (no canonicalisation, no merging with the full form)
		{name: "iri-as:Public", ident: "as:Public", mk: func() ap.Item { return ap.IRI("as:Public") }},
		{name: "iri-PublicNS", ident: string(ap.PublicNS), mk: func() ap.Item { return ap.PublicNS }},
		{name: "iri-ipv6", ident: "https://[2001:db8::1]/a", mk: func() ap.Item { return ap.IRI("https://[2001:db8::1]/a") }},
		// value forms that stay as they are (no id), a link by value
		{name: "obj-noid-value", ident: "", mk: func() ap.Item { return ap.Object{Type: ap.NoteType, Name: name("anonymous value")} }},
		{name: "link-value", ident: "", mk: func() ap.Item { return ap.Link{Type: ap.MentionType, Href: "https://example.com/hv"} }},
		// embedded objects whose id is not something net/url accepts (a raw %, a first segment with a colon, a non-numeric port,
		// a blank in the host): an id is whatever the object carries, the object is replaced by it all the same
		{name: "*obj-id-raw-percent", ident: "https://example.com/tags/100%", want: "iri:https://example.com/tags/100%", mk: func() ap.Item { return &ap.Object{ID: "https://example.com/tags/100%", Type: ap.NoteType} }},
		{name: "*obj-id-colon-segment", ident: "2024-05-01T10:00:00Z/note", want: "iri:2024-05-01T10:00:00Z/note", mk: func() ap.Item { return &ap.Object{ID: "2024-05-01T10:00:00Z/note", Type: ap.NoteType} }},
		{name: "*actor-id-bad-port", ident: "https://example.com:port/u", want: "iri:https://example.com:port/u", mk: func() ap.Item { return &ap.Actor{ID: "https://example.com:port/u", Type: ap.PersonType} }},
		{name: "*obj-id-blank-host", ident: "https://exa mple.com/x", want: "iri:https://exa mple.com/x", mk: func() ap.Item { return &ap.Object{ID: "https://exa mple.com/x", Type: ap.NoteType} }},
	}
	es = append(es,
		// an id-less object that itself embeds items with ids: it stays as it is, INCLUDING what it holds (flattening does not descend)
		c16Entry{name: "*obj-noid-rich", ident: "", mk: func() ap.Item {
			return &ap.Object{Type: ap.NoteType, Name: name("anonymous, with embedded items"), AttributedTo: &ap.Actor{ID: c16IDa, Type: ap.PersonType},
				To: ap.ItemCollection{&ap.Object{ID: c16IDb, Type: ap.NoteType}}, Replies: &ap.Collection{ID: "https://example.com/replies", Type: ap.CollectionType}}
		}},
		// an id-less link whose TARGET is the id of another entry: a link is not identified by where it points
		c16Entry{name: "*link-noid-href-a", ident: "", mk: func() ap.Item { return &ap.Link{Type: ap.MentionType, Href: c16IDa} }},
		c16Entry{name: "*link-noid-href-a-twin", ident: "", mk: func() ap.Item { return &ap.Link{Type: ap.MentionType, Href: c16IDa, Name: name("@a")} }},
	)
	for i := range es {
		if es[i].want == "" {
			es[i].want = c16Desc(es[i].mk())
		}
	}
	return es
}

func c16CollEntries() []c16Entry {
	return []c16Entry{
		{name: "*collection", coll: true, mk: func() ap.Item {
			return &ap.OrderedCollection{ID: "https://example.com/col", Type: ap.OrderedCollectionType, OrderedItems: ap.ItemCollection{ap.IRI(c16IDa), &ap.Object{ID: c16IDb, Type: ap.NoteType}}}
		}},
		{name: "*collection-empty", coll: true, mk: func() ap.Item { return &ap.Collection{ID: "https://example.com/col2", Type: ap.CollectionType} }},
	}
}

func c16IRIs(n *canon.Node, into map[string]bool) {
	if n == nil {
		return
	}
	if n.K == "str" && strings.Contains(n.S, "://") {
		into[n.S] = true
	}
	for _, f := range n.F {
		c16IRIs(f, into)
	}
	for _, e := range n.L {
		c16IRIs(e, into)
	}
}

// c16ExpectList gives the accepted results of flattening a list (D8): duplicates kept, or first mention kept.
func c16ExpectList(entries []c16Entry) (kept, dedup []string) {
	seen := map[string]bool{}
	for _, e := range entries {
		kept = append(kept, e.want)
		if e.ident != "" && seen[e.ident] {
			continue
		}
		seen[e.ident] = e.ident != ""
		dedup = append(dedup, e.want)
	}
	return
}

func init() {
	engine.Register(&engine.Check{
		ID: "C16", Name: "flatten", Level: "model_checking",
		Rule: "hosts = Activity, IntransitiveActivity, Question, Object, Actor through FlattenProperties and the typed functions; FlattenCollection / FlattenOrderedCollection on the members of a collection (every sequence of length < L, long lists, nil); every single-item flattened position x 13 entry shapes " +
			"(IRI, pointer/value object with id, actor, activity, object without id, link with/without id, embedded collections, lists of two) and every addressing list x every sequence of length <= L over 11 entries " +
			"(duplicates included); host otherwise saturated; oracle = per-entry reference flatten (D8), all non-flattened properties unchanged, no IRI in the result that was not in the original, flatten twice = once; " +
			"non-trivial = position holds at least one embedded object",
		Assumptions: []string{"reading D8: no nil list entries; with duplicates both 'kept' and 'first mention kept' are accepted; embedded collections and lists in FlattenToIRI positions are judged by the global clauses only",
			"hosts given to FlattenProperties carry a specific type name (the generic names are exercised through the typed functions)"},
		Bound: func(tier string) string {
			if tier == "thorough" {
				return "single positions complete; addressing lists of length <= 4; addressing lists of 8..65 members of distinct ids (3 without id); the same identities in every ordered pair of addressing lists; plain IRIs in other spellings (as:Public, the full Public IRI, an IPv6 literal host) among the entries; families added after round 5: DESIGN.md 8.11"
			}
			return "single positions complete; addressing lists of length <= 3; addressing lists of 8..65 members of distinct ids (3 without id); the same identities in every ordered pair of addressing lists; plain IRIs in other spellings (as:Public, the full Public IRI, an IPv6 literal host) among the entries; families added after round 5: DESIGN.md 8.11"
		},
		DeadlineQuick: 5 * time.Minute,
		Run:           c16Run,
	})
}

var c16Recipes = map[string]universe.Recipe{}

func c16BuildHost(h c16Host, set func(e reflect.Value)) any {
	rec, ok := c16Recipes[h.st]
	if !ok {
		n := 0
		universe.Saturated(universe.ByName(h.st), universe.AnyCodec, func(r universe.Recipe) {
			if n == 0 {
				rec = r
			}
			n++
		})
		c16Recipes[h.st] = rec
	}
	rec.TypeName = h.typ
	g := &universe.Gen{}
	p := rec.BuildValue(g)
	// every item position holds embedded objects with ids, so that flattening a position it should not touch is visible
	for _, f := range universe.ByName(h.st).ItemFields() {
		fv := p.Elem().Field(f.Index)
		emb := universe.Embedded(universe.ByName("Object"), g, true, true).Interface().(ap.Item)
		lnk := universe.Embedded(universe.ByName("Link"), g, true, true).Interface().(ap.Item)
		if f.Kind == universe.KItems {
			fv.Set(reflect.ValueOf(ap.ItemCollection{emb, lnk}))
		} else if f.Index%2 == 0 {
			fv.Set(reflect.ValueOf(emb))
		} else {
			fv.Set(reflect.ValueOf(ap.ItemCollection{lnk, emb}))
		}
	}
	set(p.Elem())
	return p.Interface()
}

func c16Check(t *engine.T, h c16Host, term string, set func(e reflect.Value), judge func(t *engine.T, got ap.Item, key func(string) string)) {
	key := func(sym string) string { return "C16|" + h.name + "|" + term + "|" + sym }
	v := c16BuildHost(h, set)
	before := canon.Of(v, canon.Raw)
	c16Apply(h, v)
	t.Ops(1)
	after := canon.Of(v, canon.Raw)
	// the position under test
	st := universe.ByName(h.st)
	f := st.FieldByTerm(term)
	gotV := reflect.ValueOf(v).Elem().Field(f.Index)
	var got ap.Item
	if gotV.Kind() == reflect.Interface {
		if !gotV.IsNil() {
			got = gotV.Interface().(ap.Item)
		}
	} else {
		got = gotV.Interface().(ap.ItemCollection)
	}
	judge(t, got, key)
	// every non-flattened property unchanged
	flat := map[string]bool{}
	for _, s := range h.single {
		flat[st.Field(s).Term] = true
	}
	for _, s := range c16Lists {
		flat[st.Field(s).Term] = true
	}
	if before != nil && after != nil {
		for termB, nb := range before.F {
			if !flat[termB] && !canon.Equal(nb, after.F[termB]) {
				t.Fail("C16|"+h.name+"|"+termB+"|other-property-changed", "property %s changed from %s to %s", termB, nb, after.F[termB])
			}
		}
		for termA := range after.F {
			if _, ok := before.F[termA]; !ok && !flat[termA] {
				t.Fail("C16|"+h.name+"|"+termA+"|other-property-invented", "property %s appeared: %s", termA, after.F[termA])
			}
		}
	}
	// no invented IRI
	was, is := map[string]bool{}, map[string]bool{}
	c16IRIs(before, was)
	c16IRIs(after, is)
	for iri := range is {
		if !was[iri] {
			t.Fail(key("invented-iri"), "IRI %s appears after flattening but was no id or IRI of the original", iri)
		}
	}
	// idempotence
	c16Apply(h, v)
	t.Ops(1)
	if again := canon.Of(v, canon.Raw); !canon.Equal(after, again) {
		ds := canon.Diff(after, again)
		t.Fail("C16|"+h.name+"|"+canon.LastTerm(ds[0].Path)+"|not-idempotent", "flattening twice differs from once: %s", ds[0])
	}
}

// c16Collections: FlattenCollection / FlattenOrderedCollection flatten the members of a collection (and nothing else): every
// sequence of entries of length <= L, long lists, nil receiver.
func c16Collections(c *engine.Ctx, entries []c16Entry, L int) {
	type kind struct {
		name string
		run  func(es []c16Entry) (got ap.Item, before, after *canon.Node, same bool)
	}
	mkList := func(es []c16Entry) ap.ItemCollection {
		col := make(ap.ItemCollection, len(es))
		for i, e := range es {
			col[i] = e.mk()
		}
		return col
	}
	kinds := []kind{
		{"FlattenCollection", func(es []c16Entry) (ap.Item, *canon.Node, *canon.Node, bool) {
			g := &universe.Gen{}
			col := universe.Embedded(universe.ByName("Collection"), g, true, true).Interface().(*ap.Collection)
			col.Current, col.First = universe.Embedded(universe.ByName("CollectionPage"), g, true, true).Interface().(ap.Item), g.IRI()
			col.Items = mkList(es)
			before := canon.Of(col, canon.Raw)
			ret := ap.FlattenCollection(col)
			return col.Items, before, canon.Of(col, canon.Raw), ret == col
		}},
		{"FlattenOrderedCollection", func(es []c16Entry) (ap.Item, *canon.Node, *canon.Node, bool) {
			g := &universe.Gen{}
			col := universe.Embedded(universe.ByName("OrderedCollection"), g, true, true).Interface().(*ap.OrderedCollection)
			col.Current, col.Last = universe.Embedded(universe.ByName("OrderedCollectionPage"), g, true, true).Interface().(ap.Item), g.IRI()
			col.OrderedItems = mkList(es)
			before := canon.Of(col, canon.Raw)
			ret := ap.FlattenOrderedCollection(col)
			return col.OrderedItems, before, canon.Of(col, canon.Raw), ret == col
		}},
	}
	for _, k := range kinds {
		k := k
		term := map[string]string{"FlattenCollection": "items", "FlattenOrderedCollection": "orderedItems"}[k.name]
		one := func(es []c16Entry, label string) {
			class := "C16|" + k.name + "|" + term
			c.Do(class, func() string { return fmt.Sprintf("%s on a collection whose %s = %s", k.name, term, label) }, func(t *engine.T) {
				t.Distinct(true)
				got, before, after, same := k.run(es)
				t.Ops(1)
				if !same {
					t.Fail(class+"|result-is-not-the-argument", "%s did not return its argument", k.name)
				}
				kept, dedup := c16ExpectList(es)
				d := c16Desc(got)
				if len(es) > 0 && d != "["+strings.Join(kept, " ")+"]" && d != "["+strings.Join(dedup, " ")+"]" {
					if len(d) > 500 {
						d = d[:500] + "..."
					}
					t.Fail(class+fmt.Sprintf("|len=%d|wrong-result", min(len(es), 9)), "%s = %s became %s", term, label, d)
				}
				if before != nil && after != nil {
					for tb, nb := range before.F {
						if tb != term && !canon.Equal(nb, after.F[tb]) {
							t.Fail("C16|"+k.name+"|"+tb+"|other-property-changed", "property %s changed from %s to %s", tb, nb, after.F[tb])
						}
					}
				}
			})
		}
		var rec func(cur []int)
		rec = func(cur []int) {
			es := make([]c16Entry, len(cur))
			names := make([]string, len(cur))
			for i, x := range cur {
				es[i], names[i] = entries[x], entries[x].name
			}
			one(es, "["+strings.Join(names, ", ")+"]")
			if len(cur) >= L {
				return
			}
			for x := range entries {
				ext := x >= 11
				for _, y := range cur {
					if y >= 11 {
						ext = true
					}
				}
				if ext && len(cur) >= 2 {
					continue
				}
				rec(append(append([]int{}, cur...), x))
			}
		}
		rec(nil)
		for _, N := range []int{17, 33, 65} {
			one(c16LongEntries(N), fmt.Sprintf("%d members of distinct ids (3 without id)", N))
		}
	}
	c.Do("C16|FlattenCollection|nil", func() string { return "FlattenCollection(nil) and FlattenOrderedCollection(nil)" }, func(t *engine.T) {
		t.Distinct(true)
		if ap.FlattenCollection(nil) != nil || ap.FlattenOrderedCollection(nil) != nil {
			t.Fail("C16|FlattenCollection|nil|non-nil-result", "a nil collection flattened to something")
		}
		if ap.FlattenActivityProperties(nil) != nil || ap.FlattenIntransitiveActivityProperties(nil) != nil || ap.FlattenObjectProperties(nil) != nil || ap.FlattenActorProperties(nil) != nil {
			t.Fail("C16|Flatten*Properties|nil|non-nil-result", "a typed Flatten function returned something for a nil pointer")
		}
		if got := ap.FlattenItemCollection(nil); len(got) != 0 {
			t.Fail("C16|FlattenItemCollection|nil|non-empty-result", "FlattenItemCollection(nil) = %v", got)
		}
	})
}

func c16Run(c *engine.Ctx) {
	entries := c16Entries()
	colls := c16CollEntries()
	listL := 3
	if !c.Quick() {
		listL = 4
	}
	c16Collections(c, entries, listL-1)
	// every activity type name x an embedded object that has the SAME id as the actor (a profile update, a self-follow ...):
	// neither the type name nor the coincidence of two properties changes what flattening does
	for _, stName := range []string{"Activity", "IntransitiveActivity", "Question"} {
		for _, typ := range vocabularyNamesOf(stName) {
			for _, fn := range []string{"FlattenProperties", map[string]string{"Activity": "FlattenActivityProperties", "IntransitiveActivity": "FlattenIntransitiveActivityProperties", "Question": "FlattenProperties"}[stName]} {
				if fn == "FlattenProperties" && typ == stName && stName != "Question" {
					continue // the generic names are exercised through the typed functions (assumption of this check)
				}
				h := c16Host{name: stName + "(" + typ + ")/" + fn, st: stName, typ: typ, fn: fn}
				for _, base := range c16Hosts() {
					if base.st == stName && base.fn == fn {
						h.single = base.single
					}
				}
				st := universe.ByName(stName)
				for _, pos := range []string{"Object", "Target", "Origin", "Result", "Instrument"} {
					f := st.Field(pos)
					if f == nil {
						continue
					}
					for _, actorForm := range []string{"iri", "*Actor"} {
						for _, objKind := range []string{"*Actor(Person)", "*Actor(Service)", "*Object(Note)", "Actor-value"} {
							h, f, actorForm, objKind := h, *f, actorForm, objKind
							class := "C16|" + stName + "(any type name)|" + f.Term
							c.Do(class, func() string {
								return fmt.Sprintf("%s typed %q through %s: actor = %s a, %s = %s with the same id a", stName, h.typ, h.fn, actorForm, f.Term, objKind)
							}, func(t *engine.T) {
								t.Distinct(true)
								const a = "https://example.com/users/a"
								var obj ap.Item
								switch objKind {
								case "*Actor(Person)":
									obj = &ap.Actor{ID: a, Type: ap.PersonType, Name: ap.NaturalLanguageValues{{Ref: "-", Value: ap.Content("new name")}}}
								case "*Actor(Service)":
									obj = &ap.Actor{ID: a, Type: ap.ServiceType}
								case "*Object(Note)":
									obj = &ap.Object{ID: a, Type: ap.NoteType}
								default:
									obj = ap.Actor{ID: a, Type: ap.GroupType}
								}
								c16Check(t, h, f.Term, func(ev reflect.Value) {
									af := ev.FieldByName("Actor")
									if actorForm == "iri" {
										af.Set(reflect.ValueOf(ap.IRI(a)).Convert(af.Type()))
									} else {
										af.Set(reflect.ValueOf(&ap.Actor{ID: a, Type: ap.PersonType}).Convert(af.Type()))
									}
									ev.Field(f.Index).Set(reflect.ValueOf(obj))
								}, func(t *engine.T, got ap.Item, key func(string) string) {
									if d := c16Desc(got); d != "iri:"+a {
										t.Fail(key("same-id-as-actor|"+objKind+"|wrong-result"), "%s typed %q: %s = %s (same id as the actor) became %s, expected iri:%s", stName, h.typ, f.Term, objKind, d, a)
									}
								})
							})
						}
					}
				}
			}
		}
	}
	for hi, h := range c16Hosts() {
		h := h
		st := universe.ByName(h.st)
		// single-item positions
		for _, pos := range h.single {
			f := *st.Field(pos)
			viaFlatten := false
			for _, x := range c16CoreFlat {
				if x == pos {
					viaFlatten = true
				}
			}
			single := append(append([]c16Entry{}, entries...), colls...)
			for _, e := range single {
				e := e
				class := "C16|" + h.name + "|" + f.Term
				c.Do(class, func() string { return fmt.Sprintf("%s with %s = %s", h.name, f.Term, e.name) }, func(t *engine.T) {
					t.Distinct(e.want != c16Desc(e.mk()) || e.coll)
					c16Check(t, h, f.Term, func(ev reflect.Value) { ev.Field(f.Index).Set(reflect.ValueOf(e.mk())) }, func(t *engine.T, got ap.Item, key func(string) string) {
						if e.coll {
							t.Outcome("collection-in-single-position (global clauses only)")
							return
						}
						if d := c16Desc(got); d != e.want {
							t.Fail(key(e.name+"|wrong-result"), "%s = %s became %s, expected %s", f.Term, e.name, d, e.want)
						}
					})
				})
			}
			// lists of two in a single-item position
			for _, pair := range [][2]int{{0, 2}, {2, 3}, {3, 9}, {7, 0}, {2, 0}, {7, 8}} {
				a, b := entries[pair[0]], entries[pair[1]]
				class := "C16|" + h.name + "|" + f.Term
				c.Do(class, func() string { return fmt.Sprintf("%s with %s = [%s, %s]", h.name, f.Term, a.name, b.name) }, func(t *engine.T) {
					t.Distinct(true)
					c16Check(t, h, f.Term, func(ev reflect.Value) { ev.Field(f.Index).Set(reflect.ValueOf(ap.ItemCollection{a.mk(), b.mk()})) }, func(t *engine.T, got ap.Item, key func(string) string) {
						kept, dedup := c16ExpectList([]c16Entry{a, b})
						accepted := []string{"[" + strings.Join(kept, " ") + "]", "[" + strings.Join(dedup, " ") + "]"}
						if len(dedup) == 1 {
							accepted = append(accepted, dedup[0]) // a one-element result may be normalised to the element
						}
						if !viaFlatten {
							accepted = append(accepted, c16Desc(ap.ItemCollection{a.mk(), b.mk()})) // FlattenToIRI positions: the untouched list is accepted
						}
						d := c16Desc(got)
						for _, acc := range accepted {
							if d == acc {
								return
							}
						}
						t.Fail(key("list2|wrong-result"), "%s = [%s, %s] became %s, accepted: %v", f.Term, a.name, b.name, d, accepted)
					})
				})
			}
		}
		// addressing lists
		for _, pos := range c16Lists {
			f := *st.Field(pos)
			var rec func(cur []int)
			rec = func(cur []int) {
				if len(cur) > 0 {
					idx := append([]int{}, cur...)
					class := "C16|" + h.name + "|" + f.Term
					names := make([]string, len(idx))
					es := make([]c16Entry, len(idx))
					for i, x := range idx {
						names[i] = entries[x].name
						es[i] = entries[x]
					}
					c.Do(class, func() string { return fmt.Sprintf("%s with %s = [%s]", h.name, f.Term, strings.Join(names, ", ")) }, func(t *engine.T) {
						t.Distinct(true)
						c16Check(t, h, f.Term, func(ev reflect.Value) {
							col := make(ap.ItemCollection, len(es))
							for i, e := range es {
								col[i] = e.mk()
							}
							ev.Field(f.Index).Set(reflect.ValueOf(col))
						}, func(t *engine.T, got ap.Item, key func(string) string) {
							kept, dedup := c16ExpectList(es)
							d := c16Desc(got)
							if d == "["+strings.Join(kept, " ")+"]" || d == "["+strings.Join(dedup, " ")+"]" {
								return
							}
							// classify: which entry kind went wrong
							sym := "wrong-result"
							for _, e := range es {
								if strings.Contains(e.name, "link") && !strings.Contains(d, e.want) {
									sym = "link-replaced"
								}
								if strings.Contains(e.name, "noid") && !strings.Contains(d, e.want) {
									sym = "idless-entry-lost"
								}
							}
							t.Fail(key(fmt.Sprintf("len=%d|%s", len(es), sym)), "%s = [%s] became %s, accepted: [%s] or [%s]", f.Term, strings.Join(names, ", "), d,
								strings.Join(kept, " "), strings.Join(dedup, " "))
						})
					})
				}
				if len(cur) >= listL {
					return
				}
				for x := range entries {
					// the entries after the first eleven (other spellings, value forms, odd ids) appear in lists of at most two
					ext := x >= 11
					for _, y := range cur {
						if y >= 11 {
							ext = true
						}
					}
					if ext && len(cur) >= 2 {
						continue
					}
					rec(append(cur, x))
				}
			}
			rec(nil)
		}
		judgeList := func(f universe.Field, es []c16Entry, what string) func(t *engine.T, got ap.Item, key func(string) string) {
			return func(t *engine.T, got ap.Item, key func(string) string) {
				kept, dedup := c16ExpectList(es)
				d := c16Desc(got)
				if d == "["+strings.Join(kept, " ")+"]" || d == "["+strings.Join(dedup, " ")+"]" {
					return
				}
				sym := "wrong-result"
				for _, e := range es {
					if strings.Contains(e.name, "noid") && !strings.Contains(d, e.want) {
						sym = "idless-entry-lost"
					}
				}
				if len(d) > 600 {
					d = d[:600] + "..."
				}
				t.Fail(key(what+"|"+sym), "%s (%s) became %s", f.Term, what, d)
			}
		}
		setList := func(f universe.Field, es []c16Entry) func(ev reflect.Value) {
			return func(ev reflect.Value) {
				col := make(ap.ItemCollection, len(es))
				for i, e := range es {
					col[i] = e.mk()
				}
				ev.Field(f.Index).Set(reflect.ValueOf(col))
			}
		}
		// every list of 4..6 entries over {iri-a, *obj-a, iri-b, iri-c} in `to` (for the first host: 4..7, and 4..6 in the other four lists as well):
		// several repetitions, runs of them, survivors before, between and after - what a compaction in place can get wrong
		{
			c16IDc := "https://example.com/c"
			deep := []c16Entry{entries[0], entries[2], entries[1], {name: "iri-c", ident: c16IDc, want: "iri:" + c16IDc, mk: func() ap.Item { return ap.IRI(c16IDc) }}}
			poss := []string{"To"}
			if hi == 0 {
				poss = c16Lists
			}
			for _, pos := range poss {
				f := *st.Field(pos)
				var rec func(cur []int)
				rec = func(cur []int) {
					if len(cur) >= 4 {
						es := make([]c16Entry, len(cur))
						names := make([]string, len(cur))
						for i, x := range cur {
							es[i], names[i] = deep[x], deep[x].name
						}
						class := "C16|" + h.name + "|" + f.Term
						c.Do(class, func() string { return fmt.Sprintf("%s with %s = [%s]", h.name, f.Term, strings.Join(names, ", ")) }, func(t *engine.T) {
							t.Distinct(true)
							c16Check(t, h, f.Term, setList(f, es), judgeList(f, es, fmt.Sprintf("deep=%d", len(es))))
						})
					}
					if len(cur) == 6 && !(hi == 0 && pos == "To") || len(cur) == 7 {
						return
					}
					for x := range deep {
						rec(append(append([]int{}, cur...), x))
					}
				}
				rec(nil)
			}
		}
		// long addressing lists: N members of pairwise distinct ids in rotating shapes, three of them without an id
		for _, pos := range c16Lists {
			f := *st.Field(pos)
			for _, N := range []int{8, 15, 16, 17, 18, 31, 32, 33, 64, 65} {
				N := N
				es := c16LongEntries(N)
				class := "C16|" + h.name + "|" + f.Term
				c.Do(class, func() string {
					return fmt.Sprintf("%s with %s = %d members of distinct ids (3 without id)", h.name, f.Term, N)
				}, func(t *engine.T) {
					t.Distinct(true)
					c16Check(t, h, f.Term, setList(f, es), judgeList(f, es, fmt.Sprintf("long=%d", N)))
				})
			}
		}
		// two different ids that collide under a common 32-bit hash, in one addressing list (as IRI and as embedded object)
		for _, pos := range c16Lists {
			f := *st.Field(pos)
			near := append([][2]ap.IRI{}, universe.CollidingIDs()...)
			// ... and ids with a fragment that differ only in the byte before it, after 2-, 3- and 4-byte characters, or only in one
			// character that a fold done with bit tricks identifies
			near = append(near, [2]ap.IRI{"https://example.com/\u00e91#main", "https://example.com/\u00e92#main"},
				[2]ap.IRI{"https://example.com/\u65e5\u672c\u8a9e/1#k", "https://example.com/\u65e5\u672c\u8a9e/2#k"},
				[2]ap.IRI{"https://example.com/\U0001f600a#x", "https://example.com/\U0001f600b#x"},
				[2]ap.IRI{"https://example.com/u/@x", "https://example.com/u/`x"}, [2]ap.IRI{"https://example.com/u/a_b", "https://example.com/u/a\x7fb"})
			for k, pr := range near {
				k, pr := k, pr
				es := []c16Entry{
					{name: "iri-x", ident: string(pr[0]), want: "iri:" + string(pr[0]), mk: func() ap.Item { return pr[0] }},
					{name: "*obj-y", ident: string(pr[1]), want: "iri:" + string(pr[1]), mk: func() ap.Item { return &ap.Object{ID: pr[1], Type: ap.NoteType} }},
					{name: "iri-z", ident: "https://example.com/z", want: "iri:https://example.com/z", mk: func() ap.Item { return ap.IRI("https://example.com/z") }},
				}
				if k%2 == 1 {
					es[0], es[1] = es[1], es[0]
				}
				class := "C16|" + h.name + "|" + f.Term
				c.Do(class, func() string {
					return fmt.Sprintf("%s with %s = two ids that collide under a 32-bit hash (pair #%d) and a third", h.name, f.Term, k)
				}, func(t *engine.T) {
					t.Distinct(true)
					c16Check(t, h, f.Term, setList(f, es), judgeList(f, es, "colliding-ids"))
				})
			}
		}
		// the same identities in two different addressing lists: each list is flattened on its own
		for _, p1 := range c16Lists {
			for _, p2 := range c16Lists {
				if p1 == p2 {
					continue
				}
				f1, f2 := *st.Field(p1), *st.Field(p2)
				l1 := []c16Entry{entries[2], entries[1], entries[7]} // *obj-a, iri-b, *obj-noid
				l2 := []c16Entry{entries[0], entries[3], entries[8]} // iri-a, *obj-b, *obj-noid2
				class := "C16|" + h.name + "|" + f1.Term
				c.Do(class, func() string {
					return fmt.Sprintf("%s with %s = [*obj-a, iri-b, *obj-noid] and %s = [iri-a, *obj-b, *obj-noid2]", h.name, f1.Term, f2.Term)
				}, func(t *engine.T) {
					t.Distinct(true)
					both := func(ev reflect.Value) { setList(f1, l1)(ev); setList(f2, l2)(ev) }
					c16Check(t, h, f1.Term, both, judgeList(f1, l1, "shared-with-"+f2.Term))
					c16Check(t, h, f2.Term, both, judgeList(f2, l2, "shared-with-"+f1.Term))
				})
			}
		}
	}
}

// c16LongEntries builds n entries of pairwise distinct ids in rotating shapes; positions 2, n/2 and n-1 hold objects without id.
func c16LongEntries(n int) []c16Entry {
	name := func(s string) ap.NaturalLanguageValues {
		return ap.NaturalLanguageValues{{Ref: "-", Value: ap.Content(s)}}
	}
	var es []c16Entry
	for i := 0; i < n; i++ {
		i := i
		id := ap.IRI(fmt.Sprintf("https://example.com/long/%d", i))
		var e c16Entry
		switch {
		case i == 2 || i == n/2 || i == n-1:
			e = c16Entry{name: fmt.Sprintf("*obj-noid#%d", i), mk: func() ap.Item { return &ap.Object{Type: ap.NoteType, Name: name(fmt.Sprintf("anonymous %d", i))} }}
		case i%4 == 0:
			e = c16Entry{name: fmt.Sprintf("iri#%d", i), ident: string(id), mk: func() ap.Item { return id }}
		case i%4 == 1:
			e = c16Entry{name: fmt.Sprintf("*obj#%d", i), ident: string(id), want: "iri:" + string(id), mk: func() ap.Item { return &ap.Object{ID: id, Type: ap.NoteType, Name: name("x")} }}
		case i%4 == 2:
			e = c16Entry{name: fmt.Sprintf("*actor#%d", i), ident: string(id), want: "iri:" + string(id), mk: func() ap.Item { return &ap.Actor{ID: id, Type: ap.PersonType} }}
		default:
			e = c16Entry{name: fmt.Sprintf("*link#%d", i), ident: string(id), mk: func() ap.Item { return &ap.Link{ID: id, Type: ap.MentionType, Href: id + "/h"} }}
		}
		if e.want == "" {
			e.want = c16Desc(e.mk())
		}
		es = append(es, e)
	}
	return es
}
