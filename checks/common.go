package checks

import (
	"encoding/json"
	"fmt"
	"os"
	"reflect"
	"strings"

	ap "github.com/go-ap/activitypub"

	"verif/internal/canon"
	"verif/internal/universe"
)

// jsonEncode encodes v through the given entry ("pkg": package-level MarshalJSON, "method": the type's MarshalJSON).
func jsonEncode(entry string, v any) ([]byte, error) {
	if entry == "pkg" {
		it, ok := v.(ap.LinkOrIRI)
		if !ok {
			return nil, fmt.Errorf("%T is not a LinkOrIRI", v)
		}
		return ap.MarshalJSON(it)
	}
	m, ok := v.(json.Marshaler)
	if !ok {
		return nil, fmt.Errorf("%T has no MarshalJSON", v)
	}
	return m.MarshalJSON()
}

// jsonDecode decodes b through the given entry; for "method" a fresh zero value of struct type t is the receiver.
func jsonDecode(entry string, t reflect.Type, b []byte) (any, error) {
	if entry == "pkg" {
		it, err := ap.UnmarshalJSON(b)
		disturb(len(b))
		return it, err
	}
	p := reflect.New(t)
	u, ok := p.Interface().(json.Unmarshaler)
	if !ok {
		return nil, fmt.Errorf("*%s has no UnmarshalJSON", t.Name())
	}
	err := u.UnmarshalJSON(b)
	disturb(len(b))
	return p.Interface(), err
}

var disturbDocs = map[int][]byte{}

// disturb decodes two unrelated documents (one at least n bytes long, one short) after a decode under test, so that a decoded
// value that still refers to a buffer the decoder reuses shows up as a changed value when it is compared afterwards.
func disturb(n int) {
	size := 64
	for size < n {
		size *= 2
	}
	doc, ok := disturbDocs[size]
	if !ok {
		doc = []byte(`{"type":"Note","id":"https://disturb.example/1","name":"` + strings.Repeat("Z", size/2) + `","content":"` + strings.Repeat("Q", size) + `"}`)
		disturbDocs[size] = doc
	}
	_, _ = ap.UnmarshalJSON(doc)
	_, _ = ap.UnmarshalJSON([]byte(`{"type":"Like","summaryMap":{"en":"YYYYYYYY","fr":"WWWW"}}`))
}

// structNameOf returns the struct name behind a value (pointer or not), "" for nil, the Go type string otherwise.
func structNameOf(v any) string {
	if v == nil {
		return "<nil>"
	}
	t := reflect.TypeOf(v)
	if t.Kind() == reflect.Pointer {
		if reflect.ValueOf(v).IsNil() {
			return "<nil " + t.String() + ">"
		}
		t = t.Elem()
	}
	if t.Name() != "" && t.Kind() == reflect.Struct {
		return t.Name()
	}
	return t.String()
}

// deltaKey builds the finding-key tail of one difference: owner struct | term | shape class | symptom.
// Top-level differences are attributed to the value's own struct, nested ones to the innermost object.
func deltaKey(top string, d canon.Delta) string {
	owner := d.Owner
	if owner == "" {
		owner = top
	}
	return fmt.Sprintf("%s|%s|%s|%s", owner, canon.LastTerm(d.Path), d.Class, d.Symptom)
}

var _ = universe.Structs

// universeType returns the struct type behind a pointer (or the type itself).
func universeType(v any) reflect.Type {
	t := reflect.TypeOf(v)
	if t != nil && t.Kind() == reflect.Pointer {
		return t.Elem()
	}
	return t
}

// vocabularyNamesOf returns the vocabulary type names the table assigns to a struct, sorted.
func vocabularyNamesOf(structName string) []string {
	var out []string
	for n, e := range c07Vocabulary {
		if e[0] == structName {
			out = append(out, n)
		}
	}
	sortStrings(out)
	return out
}

// moreFamilies calls fn with the value families added after round 5: every vocabulary type name of every struct (level 1 and
// pairs of instant/duration properties), an IRI property related to the value's own id, deep chains of embedded objects, lists
// holding two ids that collide under a common 32-bit hash.
func moreFamilies(codec universe.Codec, fn func(universe.Recipe)) {
	for i := range universe.Structs {
		s := &universe.Structs[i]
		universe.TypeNames(s, vocabularyNamesOf(s.Name), codec, fn)
		universe.RelatedIdentity(s, fn)
		for _, via := range []string{"Attachment", "InReplyTo", "Tag"} {
			for _, depth := range []int{5, 10, 33, 65, 130} {
				if (s.Name != "Object" && s.Name != "Activity") && depth > 10 {
					continue
				}
				if r, ok := universe.DeepChain(s, via, depth); ok {
					fn(r)
				}
			}
		}
	}
	universe.Collisions(fn)
}

// repoDir is the tree under test: /repo, unless VERIF_REPO names a scratch copy (used only while developing the checks against
// a pristine worktree; go.mod's replace directive must point at the same directory).
func repoDir() string {
	if d := os.Getenv("VERIF_REPO"); d != "" {
		return d
	}
	return "/repo"
}
