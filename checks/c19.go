package checks

import (
	"bytes"
	"fmt"
	"sort"
	"strings"

	ap "github.com/go-ap/activitypub"

	"verif/internal/engine"
)

// C19 — language-value containers behave as ordered maps from language tag to text (DESIGN.md §3 C19).
//
// Explicit-state exploration of operation histories on the real NaturalLanguageValues, in lock-step with a
// reference list of (tag,text) pairs: every history of Set/Append/Add calls up to the depth bound, from four
// start states, observers (Get for every tag, Count, First, entry order) evaluated after every step.

type c19Pair struct{ tag, text string }

type c19Op struct {
	kind      string // set | append | add
	tag, text string
}

func (o c19Op) String() string { return fmt.Sprintf("%s(%s,%s)", o.kind, o.tag, o.text) }

var c19Tags = []string{"-", "en", "fr"}

func c19Ops() []c19Op {
	var ops []c19Op
	for _, k := range []string{"set", "append", "add"} {
		for _, t := range c19Tags {
			for _, v := range []string{"a", "b"} {
				ops = append(ops, c19Op{k, t, v})
			}
		}
	}
	return ops
}

type c19Start struct {
	name string
	mk   func() ap.NaturalLanguageValues
}

var c19Starts = []c19Start{
	{"nil", func() ap.NaturalLanguageValues { return nil }},
	{"empty", func() ap.NaturalLanguageValues { return ap.NaturalLanguageValues{} }},
	{"[en:a]", func() ap.NaturalLanguageValues { return ap.NaturalLanguageValues{{Ref: "en", Value: ap.Content("a")}} }},
	{"[-:a,fr:b]", func() ap.NaturalLanguageValues {
		return ap.NaturalLanguageValues{{Ref: "-", Value: ap.Content("a")}, {Ref: "fr", Value: ap.Content("b")}}
	}},
}

func c19Model(n ap.NaturalLanguageValues) []c19Pair {
	out := make([]c19Pair, len(n))
	for i, e := range n {
		out[i] = c19Pair{string(e.Ref), string(e.Value)}
	}
	return out
}

func c19Get(m []c19Pair, tag string) (string, bool) {
	for _, p := range m {
		if p.tag == tag {
			return p.text, true
		}
	}
	return "", false
}

func c19Fmt(m []c19Pair) string {
	var b strings.Builder
	b.WriteByte('[')
	for i, p := range m {
		if i > 0 {
			b.WriteByte(',')
		}
		b.WriteString(p.tag + ":" + p.text)
	}
	b.WriteByte(']')
	return b.String()
}

// c19Step applies op to the real container n (whose model before the step is m), checks every clause of the property
// and returns the model after the step.
func c19Step(t *engine.T, hist string, n *ap.NaturalLanguageValues, m []c19Pair, op c19Op) []c19Pair {
	fail := func(sym, format string, a ...any) {
		t.Fail("C19|ops|"+op.kind+"|"+sym, "history %s: %s", hist, fmt.Sprintf(format, a...))
	}
	switch op.kind {
	case "set":
		n.Set(ap.LangRef(op.tag), ap.Content(op.text))
	case "append":
		n.Append(ap.LangRef(op.tag), ap.Content(op.text))
	case "add":
		n.Add(ap.LangRefValue{Ref: ap.LangRef(op.tag), Value: ap.Content(op.text)})
	}
	t.Ops(1)
	after := c19Model(*n)
	switch op.kind {
	case "append", "add":
		want := append(append([]c19Pair{}, m...), c19Pair{op.tag, op.text})
		if c19Fmt(after) != c19Fmt(want) {
			fail("not-appended", "container is %s, ordered map has %s", c19Fmt(after), c19Fmt(want))
		}
	case "set":
		_, had := c19Get(m, op.tag)
		if got, ok := c19Get(after, op.tag); !ok || got != op.text {
			fail("get-after-set", "Get(%s) gives %q (present=%v) after Set(%s,%s)", op.tag, got, ok, op.tag, op.text)
		}
		if len(after) > len(m)+1 || len(after) < len(m) {
			fail("length", "length went from %d to %d", len(m), len(after))
		}
		if had && len(after) != len(m) {
			fail("grew-although-present", "tag was present, length went from %d to %d", len(m), len(after))
		}
		// every other tag's text and the order of entries unchanged
		for i := range m {
			if i >= len(after) {
				break
			}
			if after[i].tag != m[i].tag {
				fail("order-changed", "entry %d was %s, is %s", i, m[i].tag+":"+m[i].text, after[i].tag+":"+after[i].text)
				break
			}
			if m[i].tag != op.tag && after[i].text != m[i].text {
				fail("other-tag-changed", "entry %d (%s) changed text %q -> %q", i, m[i].tag, m[i].text, after[i].text)
			}
		}
		if len(after) == len(m)+1 {
			if l := after[len(after)-1]; l.tag != op.tag || l.text != op.text {
				fail("wrong-entry-added", "added entry is %s:%s", l.tag, l.text)
			}
		}
	}
	// observers against the (new) model
	for _, tag := range c19Tags {
		got := n.Get(ap.LangRef(tag))
		want, ok := c19Get(after, tag)
		if !ok && got != nil {
			fail("get-absent-tag", "Get(%s) = %q, no entry has that tag in %s", tag, got, c19Fmt(after))
		}
		if ok && !bytes.Equal(got, []byte(want)) {
			fail("get-first-entry", "Get(%s) = %q, first entry with that tag holds %q in %s", tag, got, want, c19Fmt(after))
		}
	}
	t.Ops(len(c19Tags))
	if int(n.Count()) != len(after) {
		fail("count", "Count() = %d, entries = %d", n.Count(), len(after))
	}
	f := n.First()
	if len(after) > 0 && (string(f.Ref) != after[0].tag || string(f.Value) != after[0].text) {
		fail("first", "First() = %s:%s, first entry is %s:%s", f.Ref, f.Value, after[0].tag, after[0].text)
	}
	if len(after) == 0 && (f.Ref != "" || len(f.Value) != 0) {
		fail("first", "First() of an empty list = %s:%s", f.Ref, f.Value)
	}
	t.Ops(2)
	t.State(engine.Hash64("c19", c19Fmt(after)), len(after) > 0)
	return after
}

func c19Lists() [][]c19Pair {
	var out [][]c19Pair
	var rec func(cur []c19Pair, used map[string]bool)
	rec = func(cur []c19Pair, used map[string]bool) {
		out = append(out, append([]c19Pair{}, cur...))
		for _, t := range c19Tags {
			if used[t] {
				continue
			}
			for _, v := range []string{"a", "b"} {
				used[t] = true
				rec(append(cur, c19Pair{t, v}), used)
				used[t] = false
			}
		}
	}
	rec(nil, map[string]bool{})
	return out
}

func c19Build(l []c19Pair) ap.NaturalLanguageValues {
	n := make(ap.NaturalLanguageValues, 0, len(l))
	for _, p := range l {
		n = append(n, ap.LangRefValue{Ref: ap.LangRef(p.tag), Value: ap.Content(p.text)})
	}
	return n
}

func c19Set(l []c19Pair) string {
	s := make([]string, len(l))
	for i, p := range l {
		s[i] = p.tag + ":" + p.text
	}
	sort.Strings(s)
	return strings.Join(s, ",")
}

func init() {
	engine.Register(&engine.Check{
		ID: "C19", Name: "langvalues-ordered-map", Level: "model_checking",
		Rule: "explicit-state exploration of histories over 18 operations (Set/Append/Add x tags{-,en,fr} x texts{a,b}) from 4 start states (nil, empty, two literals), " +
			"every history replayed on a fresh real container in lock-step with a reference pair list, all observers after every step; states = distinct container contents reached; " +
			"equality: all 79x79 ordered pairs of lists without repeated tags; non-trivial = non-empty container / pair of non-empty lists",
		Assumptions: []string{"for Set on a tag that occurs more than once only the clauses of the statement are demanded (which duplicates are rewritten is left open)"},
		Bound: func(tier string) string {
			if tier == "thorough" {
				return "all histories of depth <= 5 (4 starts x 18^5 = 7.6M histories); equality complete (6241 pairs)"
			}
			return "all histories of depth <= 4 (4 starts x 18^4 = 420k histories); equality complete (6241 pairs)"
		},
		Run: c19Run,
	})
}

func c19Run(c *engine.Ctx) {
	ops := c19Ops()
	depth := 4
	if !c.Quick() {
		depth = 5
	}
	for _, st := range c19Starts {
		for _, o1 := range ops {
			for _, o2 := range ops {
				st, o1, o2 := st, o1, o2
				c.Do("C19|ops", func() string {
					return fmt.Sprintf("start %s; %s; %s; then every continuation up to depth %d", st.name, o1, o2, depth)
				}, func(t *engine.T) {
					var n int64
					var rec func(suffix []c19Op)
					run := func(suffix []c19Op) {
						cont := st.mk()
						m := c19Model(cont)
						hist := "start " + st.name
						for _, op := range append([]c19Op{o1, o2}, suffix...) {
							hist += "; " + op.String()
							m = c19Step(t, hist, &cont, m, op)
						}
						n++
					}
					rec = func(suffix []c19Op) {
						run(suffix)
						if len(suffix)+2 >= depth {
							return
						}
						for _, o := range ops {
							rec(append(append([]c19Op{}, suffix...), o))
						}
					}
					rec(nil)
					t.AddEvals(n-1, n-1)
					t.Outcome("histories-explored")
				})
			}
		}
	}
	lists := c19Lists()
	for ai, a := range lists {
		a := a
		c.Do("C19|equals", func() string {
			return "NaturalLanguageValues.Equals of " + c19Fmt(a) + " against all 79 lists without repeated tags"
		}, func(t *engine.T) {
			na := c19Build(a)
			for bi, b := range lists {
				nb := c19Build(b)
				got := na.Equals(nb)
				want := c19Set(a) == c19Set(b)
				t.Ops(1)
				if got != want {
					rel := "different-pairs"
					if want {
						rel = "same-pairs"
						if ai != bi {
							rel = "same-pairs-permuted"
						}
					}
					t.Fail(fmt.Sprintf("C19|equals|len=%d|%s|got=%v", len(a), rel, got), "%s.Equals(%s) = %v, the lists hold %s pairs", c19Fmt(a), c19Fmt(b), got, rel)
				}
			}
			t.AddEvals(int64(len(lists))-1, int64(len(lists))-1)
			t.Distinct(len(a) > 0)
		})
	}
}
