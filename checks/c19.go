package checks

import (
	"bytes"
	"fmt"
	"sort"
	"strings"

	ap "github.com/go-ap/activitypub"

	"verif/internal/engine"
)

// C19 — language-value containers behave as ordered maps from language tag to text (DESIGN.md §3 C19).
//
// Explicit-state exploration of operation histories on the real NaturalLanguageValues, in lock-step with a
// reference list of (tag,text) pairs: every history of Set/Append/Add calls up to the depth bound, from four
// start states, observers (Get for every tag, Count, First, entry order) evaluated after every step.

type c19Pair struct{ tag, text string }

type c19Op struct {
	kind      string // set | append | add
	tag, text string
}

func (o c19Op) String() string { return fmt.Sprintf("%s(%s,%s)", o.kind, o.tag, o.text) }

var c19Tags = []string{"-", "en", "fr"}

var c19Texts = []string{"a", "b"}

func c19Ops() []c19Op {
	var ops []c19Op
	for _, k := range []string{"set", "append", "add"} {
		for _, t := range c19Tags {
			for _, v := range c19Texts {
				ops = append(ops, c19Op{k, t, v})
			}
		}
	}
	return ops
}

type c19Start struct {
	name string
	mk   func() ap.NaturalLanguageValues
}

var c19Starts = []c19Start{
	{"nil", func() ap.NaturalLanguageValues { return nil }},
	{"empty", func() ap.NaturalLanguageValues { return ap.NaturalLanguageValues{} }},
	{"[en:a]", func() ap.NaturalLanguageValues { return ap.NaturalLanguageValues{{Ref: "en", Value: ap.Content("a")}} }},
	{"[-:a,fr:b]", func() ap.NaturalLanguageValues {
		return ap.NaturalLanguageValues{{Ref: "-", Value: ap.Content("a")}, {Ref: "fr", Value: ap.Content("b")}}
	}},
}

func c19Model(n ap.NaturalLanguageValues) []c19Pair {
	out := make([]c19Pair, len(n))
	for i, e := range n {
		out[i] = c19Pair{string(e.Ref), string(e.Value)}
	}
	return out
}

func c19Get(m []c19Pair, tag string) (string, bool) {
	for _, p := range m {
		if p.tag == tag {
			return p.text, true
		}
	}
	return "", false
}

func c19Fmt(m []c19Pair) string {
	var b strings.Builder
	b.WriteByte('[')
	for i, p := range m {
		if i > 0 {
			b.WriteByte(',')
		}
		b.WriteString(p.tag + ":" + p.text)
	}
	b.WriteByte(']')
	return b.String()
}

// c19Step applies op to the real container n (whose model before the step is m), checks every clause of the property
// and returns the model after the step.
func c19Step(t *engine.T, hist string, n *ap.NaturalLanguageValues, m []c19Pair, op c19Op) []c19Pair {
	fail := func(sym, format string, a ...any) {
		t.Fail("C19|ops|"+op.kind+"|"+sym, "history %s: %s", hist, fmt.Sprintf(format, a...))
	}
	text := func() ap.Content {
		if c19Shared == nil {
			return ap.Content(op.text)
		}
		// aliasing mode: the caller passes the SAME byte slice (with spare capacity) every time it passes this text
		s, ok := c19Shared[op.text]
		if !ok {
			s = append(make(ap.Content, 0, len(op.text)+8), op.text...)
			c19Shared[op.text] = s
		}
		return s
	}
	switch op.kind {
	case "set":
		n.Set(ap.LangRef(op.tag), text())
	case "append":
		n.Append(ap.LangRef(op.tag), text())
	case "add":
		n.Add(ap.LangRefValue{Ref: ap.LangRef(op.tag), Value: text()})
	}
	for want, s := range c19Shared {
		if string(s) != want {
			fail("caller-text-modified", "the caller's slice holding %q now reads %q", want, s)
			c19Shared[want] = append(make(ap.Content, 0, len(want)+8), want...)
		}
	}
	t.Ops(1)
	after := c19Model(*n)
	switch op.kind {
	case "append", "add":
		want := append(append([]c19Pair{}, m...), c19Pair{op.tag, op.text})
		if c19Fmt(after) != c19Fmt(want) {
			fail("not-appended", "container is %s, ordered map has %s", c19Fmt(after), c19Fmt(want))
		}
	case "set":
		_, had := c19Get(m, op.tag)
		if got, ok := c19Get(after, op.tag); !ok || got != op.text {
			fail("get-after-set", "Get(%s) gives %q (present=%v) after Set(%s,%s)", op.tag, got, ok, op.tag, op.text)
		}
		if len(after) > len(m)+1 || len(after) < len(m) {
			fail("length", "length went from %d to %d", len(m), len(after))
		}
		if had && len(after) != len(m) {
			fail("grew-although-present", "tag was present, length went from %d to %d", len(m), len(after))
		}
		// every other tag's text and the order of entries unchanged
		for i := range m {
			if i >= len(after) {
				break
			}
			if after[i].tag != m[i].tag {
				fail("order-changed", "entry %d was %s, is %s", i, m[i].tag+":"+m[i].text, after[i].tag+":"+after[i].text)
				break
			}
			if m[i].tag != op.tag && after[i].text != m[i].text {
				fail("other-tag-changed", "entry %d (%s) changed text %q -> %q", i, m[i].tag, m[i].text, after[i].text)
			}
		}
		if len(after) == len(m)+1 {
			if l := after[len(after)-1]; l.tag != op.tag || l.text != op.text {
				fail("wrong-entry-added", "added entry is %s:%s", l.tag, l.text)
			}
		}
	}
	// observers against the (new) model
	probe := c19Tags
	if c19Probe != nil {
		probe = c19Probe
	}
	for _, tag := range probe {
		got := n.Get(ap.LangRef(tag))
		want, ok := c19Get(after, tag)
		if !ok && got != nil {
			fail("get-absent-tag", "Get(%s) = %q, no entry has that tag in %s", tag, got, c19Fmt(after))
		}
		if ok && !bytes.Equal(got, []byte(want)) {
			fail("get-first-entry", "Get(%s) = %q, first entry with that tag holds %q in %s", tag, got, want, c19Fmt(after))
		}
	}
	t.Ops(len(c19Tags))
	if int(n.Count()) != len(after) {
		fail("count", "Count() = %d, entries = %d", n.Count(), len(after))
	}
	f := n.First()
	if len(after) > 0 && (string(f.Ref) != after[0].tag || string(f.Value) != after[0].text) {
		fail("first", "First() = %s:%s, first entry is %s:%s", f.Ref, f.Value, after[0].tag, after[0].text)
	}
	if len(after) == 0 && (f.Ref != "" || len(f.Value) != 0) {
		fail("first", "First() of an empty list = %s:%s", f.Ref, f.Value)
	}
	t.Ops(2)
	t.State(engine.Hash64("c19", c19Fmt(after)), len(after) > 0)
	return after
}

var c19Shared map[string]ap.Content // non-nil: texts are passed as shared slices (aliasing mode)

var c19Probe []string // scale histories: the tags Get is probed with

// c19Scale reaches containers of k entries with pairwise distinct tags (k around 8, 16, 32, 64) - by k Appends or as a literal -
// and explores every continuation of depth <= 2; equality is checked against a permutation, a changed last text, a changed last
// tag, a prefix and an extension of the same list.
func c19Scale(c *engine.Ctx) {
	tagOf := func(i int) string { return fmt.Sprintf("x-t%d", i) }
	for _, k := range []int{7, 8, 9, 15, 16, 17, 31, 32, 33, 63, 64, 65, 130} {
		for _, how := range []string{"appended", "literal"} {
			k, how := k, how
			long := strings.Repeat("long text é€😀 ", 20)
			var ops []c19Op
			for _, kind := range []string{"set", "append", "add"} {
				for _, tg := range []string{tagOf(0), tagOf(k / 2), tagOf(k - 1), tagOf(k), "-"} {
					ops = append(ops, c19Op{kind, tg, "a"})
				}
				ops = append(ops, c19Op{kind, tagOf(k - 1), long})
			}
			c.Do("C19|ops", func() string {
				return fmt.Sprintf("container of %d distinct tags (%s), then every continuation up to depth 2 over %d operations", k, how, len(ops))
			}, func(t *engine.T) {
				c19Probe = []string{tagOf(0), tagOf(1), tagOf(k / 2), tagOf(k - 2), tagOf(k - 1), tagOf(k), "-", "en"}
				defer func() { c19Probe = nil }()
				var n int64
				run := func(seq []c19Op) {
					t.Step(nil)
					var cont ap.NaturalLanguageValues
					var m []c19Pair
					hist := fmt.Sprintf("%d distinct tags (%s)", k, how)
					if how == "literal" {
						for i := 0; i < k; i++ {
							cont = append(cont, ap.LangRefValue{Ref: ap.LangRef(tagOf(i)), Value: ap.Content(fmt.Sprintf("text %d", i))})
						}
						cont = cont[:k:k]
						m = c19Model(cont)
					} else {
						for i := 0; i < k; i++ {
							m = c19Step(t, hist, &cont, m, c19Op{"append", tagOf(i), fmt.Sprintf("text %d", i)})
						}
					}
					for _, op := range seq {
						hist += "; " + op.String()
						m = c19Step(t, hist, &cont, m, op)
					}
					n++
				}
				run(nil)
				for _, o1 := range ops {
					run([]c19Op{o1})
					for _, o2 := range ops {
						run([]c19Op{o1, o2})
					}
				}
				t.AddEvals(n-1, n-1)
			})
		}
		k := k
		c.Do("C19|equals", func() string {
			return fmt.Sprintf("NaturalLanguageValues.Equals on lists of %d distinct tags: permuted, changed, shortened, extended", k)
		}, func(t *engine.T) {
			t.Distinct(true)
			base := make([]c19Pair, k)
			for i := range base {
				base[i] = c19Pair{tagOf(i), fmt.Sprintf("text %d", i)}
			}
			variants := map[string][]c19Pair{"identical": append([]c19Pair{}, base...)}
			rev := make([]c19Pair, k)
			for i := range base {
				rev[k-1-i] = base[i]
			}
			variants["reversed"] = rev
			rot := append(append([]c19Pair{}, base[1:]...), base[0])
			variants["rotated"] = rot
			lt := append([]c19Pair{}, base...)
			lt[k-1].text = "other"
			variants["last-text-changed"] = lt
			lg := append([]c19Pair{}, base...)
			lg[k-1].tag = "x-other"
			variants["last-tag-changed"] = lg
			ft := append([]c19Pair{}, base...)
			ft[0].text = "other"
			variants["first-text-changed"] = ft
			// near misses of an indexed comparison: a foreign tag that carries the text of the first / last / no entry
			for _, j := range []int{1, k / 2, k - 1} {
				for tn, tx := range map[string]string{"first-text": base[0].text, "last-text": base[k-1].text, "empty-text": ""} {
					fv := append([]c19Pair{}, base...)
					fv[j] = c19Pair{"x-foreign", tx}
					variants[fmt.Sprintf("entry-%d-of-k-replaced-by-foreign-tag-with-%s", map[int]int{1: 1, k / 2: 2, k - 1: 3}[j], tn)] = fv
				}
			}
			variants["shortened"] = append([]c19Pair{}, base[:k-1]...)
			variants["extended"] = append(append([]c19Pair{}, base...), c19Pair{"x-more", "more"})
			names := make([]string, 0, len(variants))
			for nme := range variants {
				names = append(names, nme)
			}
			sort.Strings(names)
			for _, nme := range names {
				v := variants[nme]
				want := c19Set(base) == c19Set(v)
				for _, pair := range [][2][]c19Pair{{base, v}, {v, base}} {
					got := c19Build(pair[0]).Equals(c19Build(pair[1]))
					t.Ops(1)
					if got != want {
						t.Fail(fmt.Sprintf("C19|equals|long|%s|got=%v", nme, got), "lists of %d entries (%s): Equals = %v, expected %v", k, nme, got, want)
					}
				}
			}
			t.AddEvals(int64(2*len(names))-1, int64(2*len(names))-1)
		})
	}
}

func c19Lists() [][]c19Pair { return c19ListsOver([]string{"a", "b"}) }

func c19ListsOver(texts []string) [][]c19Pair {
	var out [][]c19Pair
	var rec func(cur []c19Pair, used map[string]bool)
	rec = func(cur []c19Pair, used map[string]bool) {
		out = append(out, append([]c19Pair{}, cur...))
		for _, t := range c19Tags {
			if used[t] {
				continue
			}
			for _, v := range texts {
				used[t] = true
				rec(append(cur, c19Pair{t, v}), used)
				used[t] = false
			}
		}
	}
	rec(nil, map[string]bool{})
	return out
}

func c19Build(l []c19Pair) ap.NaturalLanguageValues {
	n := make(ap.NaturalLanguageValues, 0, len(l))
	for _, p := range l {
		n = append(n, ap.LangRefValue{Ref: ap.LangRef(p.tag), Value: ap.Content(p.text)})
	}
	return n
}

func c19Set(l []c19Pair) string {
	s := make([]string, len(l))
	for i, p := range l {
		s[i] = p.tag + ":" + p.text
	}
	sort.Strings(s)
	return strings.Join(s, ",")
}

func init() {
	engine.Register(&engine.Check{
		ID: "C19", Name: "langvalues-ordered-map", Level: "model_checking",
		Rule: "explicit-state exploration of histories over 18 operations (Set/Append/Add x tags{-,en,fr} x texts{a,b}) from 4 start states (nil, empty, two literals), " +
			"every history replayed on a fresh real container in lock-step with a reference pair list, all observers after every step; states = distinct container contents reached; " +
			"equality: all 79x79 ordered pairs of lists without repeated tags; non-trivial = non-empty container / pair of non-empty lists",
		Assumptions: []string{"for Set on a tag that occurs more than once only the clauses of the statement are demanded (which duplicates are rewritten is left open)"},
		Bound: func(tier string) string {
			if tier == "thorough" {
				return "all histories of depth <= 6 (4 starts x 18^6 = 136M histories, each in two modes: fresh texts / texts passed as shared slices); equality complete (6241 pairs); far states: containers of 7..130 distinct tags reached in two ways x every continuation of depth <= 2 over 18 operations; equality of 7..130-entry lists against 8 variants; families added after round 5: DESIGN.md 8.11"
			}
			return "all histories of depth <= 4 (4 starts x 18^4 = 420k histories, each in two modes: fresh texts / texts passed as shared slices); equality complete (6241 pairs); far states: containers of 7..130 distinct tags reached in two ways x every continuation of depth <= 2 over 18 operations; equality of 7..130-entry lists against 8 variants; families added after round 5: DESIGN.md 8.11"
		},
		Run: c19Run,
	})
}

// c19ByteClasses: the container stores byte strings, whatever they are - texts that spell a tag in brackets (what String()
// prints for a tagged entry), texts that end in a cut multi-byte sequence, ill-formed bytes, the empty text.
func c19ByteClasses(c *engine.Ctx) {
	texts := []string{"Bob[en]", "caf\xc3", "5 \xe2\x82", "\xf0\x9f\x98", "it\x92s", "\x80", "[-]", "x\x00y", ""}
	saved := c19Texts
	c19Texts = texts
	ops := c19Ops()
	c19Texts = saved
	for _, st := range c19Starts {
		for _, o1 := range ops {
			st, o1 := st, o1
			c.Do("C19|ops", func() string {
				return fmt.Sprintf("start %s; %s; then every continuation up to depth 2 (byte-class texts)", st.name, o1)
			}, func(t *engine.T) {
				var n int64
				run := func(seq []c19Op) {
					t.Step(nil)
					cont := st.mk()
					m := c19Model(cont)
					hist := "start " + st.name
					for _, op := range seq {
						hist += "; " + op.String()
						m = c19Step(t, hist, &cont, m, op)
					}
					n++
				}
				run([]c19Op{o1})
				for _, o2 := range ops {
					run([]c19Op{o1, o2})
				}
				t.AddEvals(n-1, n-1)
			})
		}
	}
	lists := c19ListsOver([]string{"Bob", "Bob[en]", "Bob[fr]", "Bob[-]"})
	for ai, a := range lists {
		a := a
		c.Do("C19|equals", func() string {
			return "NaturalLanguageValues.Equals of " + c19Fmt(a) + " against every list over texts that spell tags in brackets"
		}, func(t *engine.T) {
			na := c19Build(a)
			for bi, b := range lists {
				got, want := na.Equals(c19Build(b)), c19Set(a) == c19Set(b)
				t.Ops(1)
				if got != want {
					t.Fail(fmt.Sprintf("C19|equals|bracket-texts|len=%d|got=%v", len(a), got), "%s.Equals(%s) = %v (lists #%d, #%d)", c19Fmt(a), c19Fmt(b), got, ai, bi)
				}
			}
			t.AddEvals(int64(len(lists))-1, int64(len(lists))-1)
			t.Distinct(len(a) > 0)
		})
	}
}

// c19NearTags: the histories of depth <= 3 over tags that agree in their length and in their first eight bytes (sr-Latn-RS / sr-Latn-ME,
// zh-Hant-TW / zh-Hant-HK), in a prefix (sr-Latn) or in nothing: a tag is the whole string, not a fixed-size key made from it.
func c19NearTags(c *engine.Ctx) {
	tags := []string{"sr-Latn-RS", "sr-Latn-ME", "sr-Latn", "zh-Hant-TW", "zh-Hant-HK", "-"}
	savedTags := c19Tags
	c19Tags = tags
	ops := c19Ops()
	c19Tags = savedTags
	for _, st := range c19Starts[:2] {
		for _, o1 := range ops {
			st, o1 := st, o1
			c.Do("C19|ops", func() string {
				return fmt.Sprintf("start %s; %s; then every continuation up to depth 3 (tags sharing length and first eight bytes)", st.name, o1)
			}, func(t *engine.T) {
				c19Probe = tags
				defer func() { c19Probe = nil }()
				var n int64
				run := func(seq []c19Op) {
					t.Step(nil)
					cont := st.mk()
					m := c19Model(cont)
					hist := "start " + st.name
					for _, op := range seq {
						hist += "; " + op.String()
						m = c19Step(t, hist, &cont, m, op)
					}
					n++
				}
				run([]c19Op{o1})
				for _, o2 := range ops {
					run([]c19Op{o1, o2})
					for _, o3 := range ops {
						run([]c19Op{o1, o2, o3})
					}
				}
				t.AddEvals(n-1, n-1)
			})
		}
	}
}

func c19Run(c *engine.Ctx) {
	c19Scale(c)
	c19ByteClasses(c)
	c19NearTags(c)
	ops := c19Ops()
	depth := 4
	if !c.Quick() {
		depth = 6
	}
	for _, st := range c19Starts {
		for _, o1 := range ops {
			for _, o2 := range ops {
				st, o1, o2 := st, o1, o2
				c.Do("C19|ops", func() string {
					return fmt.Sprintf("start %s; %s; %s; then every continuation up to depth %d", st.name, o1, o2, depth)
				}, func(t *engine.T) {
					var n int64
					var rec func(suffix []c19Op)
					run := func(suffix []c19Op) {
						t.Step(nil)
						for _, aliasing := range []bool{false, true} {
							c19Shared = nil
							hist := "start " + st.name
							if aliasing {
								c19Shared = map[string]ap.Content{}
								hist += " (texts passed as shared slices)"
							}
							cont := st.mk()
							m := c19Model(cont)
							for _, op := range append([]c19Op{o1, o2}, suffix...) {
								hist += "; " + op.String()
								m = c19Step(t, hist, &cont, m, op)
							}
							c19Shared = nil
							n++
						}
					}
					rec = func(suffix []c19Op) {
						run(suffix)
						if len(suffix)+2 >= depth {
							return
						}
						for _, o := range ops {
							rec(append(append([]c19Op{}, suffix...), o))
						}
					}
					rec(nil)
					t.AddEvals(n-1, n-1)
					t.Outcome("histories-explored")
				})
			}
		}
	}
	lists := c19Lists()
	for ai, a := range lists {
		a := a
		c.Do("C19|equals", func() string {
			return "NaturalLanguageValues.Equals of " + c19Fmt(a) + " against all 79 lists without repeated tags"
		}, func(t *engine.T) {
			na := c19Build(a)
			for bi, b := range lists {
				nb := c19Build(b)
				got := na.Equals(nb)
				want := c19Set(a) == c19Set(b)
				t.Ops(1)
				if got != want {
					rel := "different-pairs"
					if want {
						rel = "same-pairs"
						if ai != bi {
							rel = "same-pairs-permuted"
						}
					}
					t.Fail(fmt.Sprintf("C19|equals|len=%d|%s|got=%v", len(a), rel, got), "%s.Equals(%s) = %v, the lists hold %s pairs", c19Fmt(a), c19Fmt(b), got, rel)
				}
			}
			t.AddEvals(int64(len(lists))-1, int64(len(lists))-1)
			t.Distinct(len(a) > 0)
		})
	}
}
