package checks

import (
	"encoding/json"
	"fmt"
	"reflect"
	"strings"
	"time"

	ap "github.com/go-ap/activitypub"

	"verif/internal/canon"
	"verif/internal/engine"
	"verif/internal/universe"
)

// C11 — Clean() leaves no private recipients in what gets serialised (DESIGN.md §3 C11, reading D6).

var c11Walked = []string{"audience", "attachment", "icon", "image", "context", "generator", "attributedTo", "preview", "tag"}
var c11ActivityWalked = []string{"object", "actor", "target"}

func c11HasClean(structName string) bool {
	s := universe.ByName(structName)
	return s != nil && s.Family != "link" && s.Family != "nested"
}

func c11WalkedTerms(structName string) []string {
	if structName == "Activity" {
		return append(append([]string{}, c11Walked...), c11ActivityWalked...)
	}
	return c11Walked
}

// c11Expect rewrites a snapshot into what Clean() must leave: bto/bcc removed on the value and on every object embedded by
// pointer along the walked properties (through lists); everything else untouched. It also returns the walked paths.
func c11Expect(n *canon.Node) (*canon.Node, [][]any) {
	out := n.Clone()
	var paths [][]any
	var walk func(x *canon.Node, path []any)
	var child func(x *canon.Node, path []any)
	walk = func(x *canon.Node, path []any) {
		if x == nil || x.K != "obj" || !c11HasClean(x.T) {
			return
		}
		delete(x.F, "bto")
		delete(x.F, "bcc")
		paths = append(paths, append([]any{}, path...))
		for _, term := range c11WalkedTerms(x.T) {
			child(x.F[term], append(append([]any{}, path...), term))
		}
	}
	child = func(x *canon.Node, path []any) {
		if x == nil {
			return
		}
		switch x.K {
		case "obj":
			if x.V {
				return // embedded by value: outside the statement (and cannot be cleaned through an interface)
			}
			walk(x, path)
		case "list":
			for i, e := range x.L {
				child(e, append(append([]any{}, path...), i))
			}
		}
	}
	walk(out, nil)
	return out, paths
}

type c11Step struct {
	field  universe.Field
	inList int    // 0 = directly, 1 = [node, iri], 2 = [iri, node], 3 = [node], 4 = &[node, iri] (pointer to a list, single-item positions only)
	node   string // struct name of the node placed at this step
	value  bool   // place the node by value (control)
}

func (s c11Step) String() string {
	f := s.field.Term
	if s.inList > 0 {
		f += []string{"", "[0/2]", "[1/2]", "[0/1]", "*[0/2]"}[s.inList]
	}
	v := "*"
	if s.value {
		v = ""
	}
	return f + "=" + v + s.node
}

func c11Private(g *universe.Gen, p reflect.Value) {
	e := p.Elem()
	e.FieldByName("Bto").Set(reflect.ValueOf(ap.ItemCollection{g.IRI()}))
	e.FieldByName("BCC").Set(reflect.ValueOf(ap.ItemCollection{g.IRI(), g.IRI()}))
	e.FieldByName("To").Set(reflect.ValueOf(ap.ItemCollection{g.IRI()}))
	e.FieldByName("CC").Set(reflect.ValueOf(ap.ItemCollection{g.IRI()}))
}

// c11Build builds host with a chain of nodes along steps; every node (host included) carries bto/bcc/to/cc, so that
// intermediate nodes are carriers as well.
func c11Build(host *universe.Struct, steps []c11Step) any {
	g := &universe.Gen{}
	mk := func(s *universe.Struct) reflect.Value {
		p := universe.Embedded(s, g, true, true)
		c11Private(g, p)
		p.Elem().FieldByName("Summary").Set(reflect.ValueOf(ap.NaturalLanguageValues{{Ref: "-", Value: ap.Content("keep me")}}))
		return p
	}
	root := mk(host)
	cur := root
	for _, st := range steps {
		node := mk(universe.ByName(st.node))
		var it reflect.Value = node
		if st.value {
			it = node.Elem()
		}
		f := cur.Elem().Field(st.field.Index)
		if st.inList > 0 || st.field.Kind == universe.KItems {
			var col ap.ItemCollection
			switch st.inList {
			case 1:
				col = ap.ItemCollection{it.Interface().(ap.Item), g.IRI()}
			case 3:
				col = ap.ItemCollection{it.Interface().(ap.Item)}
			default:
				col = ap.ItemCollection{g.IRI(), it.Interface().(ap.Item)}
			}
			if st.inList == 4 && f.Kind() == reflect.Interface {
				col = ap.ItemCollection{it.Interface().(ap.Item), g.IRI()}
				f.Set(reflect.ValueOf(&col))
			} else {
				f.Set(reflect.ValueOf(col))
			}
		} else {
			f.Set(it)
		}
		cur = node
	}
	return root.Interface()
}

func c11JSONAt(doc any, path []any) (map[string]any, bool) {
	cur := doc
	for _, p := range path {
		switch k := p.(type) {
		case string:
			m, ok := cur.(map[string]any)
			if !ok {
				return nil, false
			}
			cur = m[k]
		case int:
			if arr, ok := cur.([]any); ok {
				if k >= len(arr) {
					return nil, false
				}
				cur = arr[k]
			} else if k != 0 {
				return nil, false
			}
		}
	}
	m, ok := cur.(map[string]any)
	return m, ok
}

func init() {
	engine.Register(&engine.Check{
		ID: "C11", Name: "clean", Level: "model_checking",
		Rule: "host = every type implementing Clean() (13 structs) and ItemCollection; a chain of carrier objects (each with bto, bcc, to, cc, summary) planted along every path of item positions " +
			"(direct and inside a list; node types Object/Activity/Actor/Collection/Question; by pointer and, as control, by value) up to the depth bound, walked and non-walked positions alike; " +
			"oracle: reflection snapshot before vs after with bto/bcc removed exactly along the walked properties (D6), plus an encoding/json reading of the serialisation at every walked path; " +
			"non-trivial = at least one embedded carrier",
		Assumptions: []string{"reading D6: 'for an activity' = the transitive Activity struct; items embedded by value are outside"},
		Bound: func(tier string) string {
			if tier == "thorough" {
				return "all paths of depth <= 2 over every item position with 5 node types; paths of depth 3 whose steps range over the walked properties plus 4 control positions (node types Object/Activity); pointer-to-list form of every single-item position; every list property a window of one shared backing array (3 orders); families added after round 5: DESIGN.md 8.11"
			}
			return "paths of depth <= 2 over every item position, 3 node types; all 13 node types at depth 1 (every position) and at depth 2 below an Object / an Activity (walked positions); chains of depth 4/6/9/20/40/70 along every walked property; lists of 17/33/65 members (carriers with 40 bto and 70 bcc entries, three identities occurring twice) in every walked position; pointer-to-list form of every single-item position; every list property a window of one shared backing array (3 orders); families added after round 5: DESIGN.md 8.11"
		},
		DeadlineQuick: 5 * time.Minute,
		Run:           c11Run,
	})
}

func c11Case(c *engine.Ctx, host *universe.Struct, steps []c11Step) {
	class := "C11|clean|" + host.Name
	desc := func() string {
		parts := []string{"*" + host.Name}
		for _, s := range steps {
			parts = append(parts, s.String())
		}
		return strings.Join(parts, " . ") + " ; Clean()"
	}
	c.Do(class, desc, func(t *engine.T) {
		v := c11Build(host, steps)
		before := canon.Of(v, canon.Raw)
		want, paths := c11Expect(before)
		t.State(engine.Hash64("c11", before.String()), len(steps) > 0)
		hr, ok := v.(ap.HasRecipients)
		if !ok {
			t.Fail(class+"|no-clean-method", "%T does not implement HasRecipients", v)
			return
		}
		hr.Clean()
		t.Ops(1)
		after := canon.Of(v, canon.Raw)
		for _, d := range canon.Diff(want, after) {
			sym := d.Symptom
			term := canon.LastTerm(d.Path)
			what := "other-property-" + sym
			if (term == "bto" || term == "bcc") && sym == "invented" {
				what = "private-recipients-left"
			}
			// key: the struct that owns the differing term, the term, and the position class (depth, via list or not)
			t.Fail(fmt.Sprintf("C11|clean|%s|%s|depth=%d|%s", d.Owner+orTop(d.Owner, host.Name), term, canon.Depth(d.Path)-1, what),
				"%s at %s\nvalue: %s", d, d.Path, desc())
		}
		// what gets serialised
		m, _ := v.(json.Marshaler)
		b, err := m.MarshalJSON()
		t.Ops(1)
		if err != nil || len(b) == 0 {
			t.Fail(class+"|marshal", "MarshalJSON after Clean: %d bytes, err=%v", len(b), err)
			return
		}
		var doc any
		if err := json.Unmarshal(b, &doc); err != nil {
			t.Fail(class+"|marshal-invalid", "MarshalJSON after Clean is not valid JSON: %v", err)
			return
		}
		for _, p := range paths {
			obj, ok := c11JSONAt(doc, p)
			if !ok {
				continue // the encoder did not embed this node as an object (C01's business)
			}
			for _, k := range []string{"bto", "bcc"} {
				if _, has := obj[k]; has {
					t.Fail(fmt.Sprintf("C11|clean|%s|%s|depth=%d|serialised", host.Name, k, len(p)), "the JSON written after Clean() still has %q at %v: %s", k, p, b)
				}
			}
		}
	})
}

func orTop(owner, host string) string {
	if owner == "" {
		return host
	}
	return ""
}

func c11Run(c *engine.Ctx) {
	nodeTypes := []string{"Object", "Activity", "Actor"}
	if !c.Quick() {
		nodeTypes = []string{"Object", "Activity", "Actor", "Collection", "Question"}
	}
	var hosts []*universe.Struct
	for i := range universe.Structs {
		if c11HasClean(universe.Structs[i].Name) {
			hosts = append(hosts, &universe.Structs[i])
		}
	}
	stepsFor := func(s *universe.Struct, restrict bool) []c11Step {
		nodeTypes := nodeTypes
		if restrict {
			nodeTypes = []string{"Object", "Activity"}
		}
		var out []c11Step
		for _, f := range s.ItemFields() {
			if restrict {
				walked := false
				for _, w := range c11WalkedTerms(s.Name) {
					if w == f.Term {
						walked = true
					}
				}
				if !walked && f.Term != "inReplyTo" && f.Term != "to" && f.Term != "items" && f.Term != "instrument" {
					continue
				}
			}
			for _, nt := range nodeTypes {
				if f.Kind == universe.KItem {
					out = append(out, c11Step{field: f, node: nt})
				}
				out = append(out, c11Step{field: f, inList: 2, node: nt})
				if nt == "Object" || !restrict {
					out = append(out, c11Step{field: f, inList: 1, node: nt})
				}
				if nt == "Object" {
					out = append(out, c11Step{field: f, inList: 3, node: nt})
					if f.Kind == universe.KItem {
						out = append(out, c11Step{field: f, inList: 4, node: nt})
					}
				}
			}
			if f.Kind == universe.KItem {
				out = append(out, c11Step{field: f, node: "Object", value: true})
			}
		}
		return out
	}
	// every vocabulary type as the node (the quick tier's depth-2 paths use three of them): directly, as the second of two list members
	// and as the only member, at depth 1 in every item position and at depth 2 below an Object / an Activity in the walked positions.
	// A walk that picks what to do by a type switch treats a collection, a page or a question differently from a plain object.
	var allNodes []string
	for i := range universe.Structs {
		if n := universe.Structs[i].Name; n != "Link" {
			allNodes = append(allNodes, n)
		}
	}
	leafSteps := func(s *universe.Struct, walkedOnly bool) []c11Step {
		var out []c11Step
		for _, f := range s.ItemFields() {
			if walkedOnly {
				walked := false
				for _, w := range c11WalkedTerms(s.Name) {
					walked = walked || w == f.Term
				}
				if !walked {
					continue
				}
			}
			for _, nt := range allNodes {
				if f.Kind == universe.KItem {
					out = append(out, c11Step{field: f, node: nt})
				}
				out = append(out, c11Step{field: f, inList: 2, node: nt}, c11Step{field: f, inList: 3, node: nt})
			}
		}
		return out
	}
	for _, h := range hosts {
		for _, s1 := range leafSteps(h, false) {
			c11Case(c, h, []c11Step{s1})
		}
		for _, mid := range []string{"Object", "Activity"} {
			ms := universe.ByName(mid)
			for _, s1 := range []c11Step{{field: *h.Field("Tag"), inList: 2, node: mid}, {field: *h.Field("Attachment"), node: mid}} {
				for _, s2 := range leafSteps(ms, true) {
					c11Case(c, h, []c11Step{s1, s2})
				}
			}
		}
	}
	for _, h := range hosts {
		c11Case(c, h, nil)
		for _, s1 := range stepsFor(h, false) {
			c11Case(c, h, []c11Step{s1})
			if s1.value {
				continue
			}
			n1 := universe.ByName(s1.node)
			for _, s2 := range stepsFor(n1, false) {
				c11Case(c, h, []c11Step{s1, s2})
			}
		}
		if c.Quick() {
			continue
		}
		// depth 3: every step ranges over the walked properties plus four control positions, node types Object/Activity
		for _, s1 := range stepsFor(h, true) {
			if s1.value {
				continue
			}
			for _, s2 := range stepsFor(universe.ByName(s1.node), true) {
				if s2.value {
					continue
				}
				for _, s3 := range stepsFor(universe.ByName(s2.node), true) {
					c11Case(c, h, []c11Step{s1, s2, s3})
				}
			}
		}
	}
	// every vocabulary type name of every host struct (some Clean/Recipients logic depends on the type name, e.g. Block), with the
	// host's own object / actor / first walked item also mentioned by id in to, cc and audience: Clean() must leave those alone
	// scale: long chains along one walked property, and long lists of carriers (with long private lists) in walked positions
	for _, h := range hosts {
		h := h
		for _, term := range c11WalkedTerms(h.Name) {
			f := h.FieldByTerm(term)
			if f == nil {
				continue
			}
			for _, depth := range []int{4, 6, 9, 20, 40, 70} {
				var steps []c11Step
				cur := h
				ok := true
				for d := 0; d < depth; d++ {
					cf := cur.FieldByTerm(term)
					if cf == nil {
						ok = false
						break
					}
					nt := []string{"Object", "Activity", "Actor"}[d%3]
					steps = append(steps, c11Step{field: *cf, inList: []int{0, 2, 1}[d%3], node: nt})
					if cf.Kind == universe.KItems && steps[d].inList == 0 {
						steps[d].inList = 3
					}
					cur = universe.ByName(nt)
				}
				if ok {
					c11Case(c, h, steps)
				}
			}
			for _, N := range []int{17, 33, 65} {
				N, f := N, *f
				class := "C11|clean|" + h.Name
				c.Do(class, func() string {
					return fmt.Sprintf("*%s . %s = list of %d members (carriers with 40 bto / 70 bcc entries alternating with IRIs) ; Clean()", h.Name, f.Term, N)
				}, func(t *engine.T) {
					g := &universe.Gen{}
					carrier := func(s *universe.Struct) reflect.Value {
						p := universe.Embedded(s, g, true, true)
						c11Private(g, p)
						var bto, bcc ap.ItemCollection
						for i := 0; i < 40; i++ {
							bto = append(bto, g.IRI())
						}
						for i := 0; i < 70; i++ {
							bcc = append(bcc, g.IRI())
						}
						p.Elem().FieldByName("Bto").Set(reflect.ValueOf(bto))
						p.Elem().FieldByName("BCC").Set(reflect.ValueOf(bcc))
						return p
					}
					root := carrier(h)
					col := make(ap.ItemCollection, N)
					for i := range col {
						if i%2 == 0 || i == N-1 {
							col[i] = carrier(universe.ByName([]string{"Object", "Activity", "Actor"}[i%3])).Interface().(ap.Item)
						} else {
							col[i] = g.IRI()
						}
					}
					// the same identity more than once: member 4 is a second object with the id of member 0, member 6 is the
					// object whose id member 1 names, the last member is a second object with the id of member 2
					sameID := func(dst, src int) {
						var id ap.IRI
						if iri, ok := col[src].(ap.IRI); ok {
							id = iri
						} else {
							id = col[src].GetLink()
						}
						reflect.ValueOf(col[dst]).Elem().FieldByName("ID").Set(reflect.ValueOf(id))
					}
					sameID(4, 0)
					sameID(6, 1)
					sameID(N-1, 2)
					root.Elem().Field(f.Index).Set(reflect.ValueOf(col))
					v := root.Interface()
					before := canon.Of(v, canon.Raw)
					want, _ := c11Expect(before)
					t.State(engine.Hash64("c11long", before.String()), true)
					v.(ap.HasRecipients).Clean()
					t.Ops(1)
					for _, d := range canon.Diff(want, canon.Of(v, canon.Raw)) {
						term := canon.LastTerm(d.Path)
						what := "other-property-" + d.Symptom
						if (term == "bto" || term == "bcc") && d.Symptom == "invented" {
							what = "private-recipients-left"
						}
						t.Fail(fmt.Sprintf("C11|clean|%s|%s|long-list|%s", h.Name, term, what), "%s at %s (list of %d)", d, d.Path, N)
					}
				})
			}
		}
	}
	// two walked positions mention the SAME identity - one as a bare IRI (or a sparse object), the other as an embedded carrier with
	// private recipients; and hosts whose own bto/bcc are empty but have capacity (what a de-duplication in place leaves behind)
	for _, h := range hosts {
		h := h
		walked := c11WalkedTerms(h.Name)
		for i, t1 := range walked {
			for j, t2 := range walked {
				if i == j {
					continue
				}
				f1, f2 := h.FieldByTerm(t1), h.FieldByTerm(t2)
				if f1 == nil || f2 == nil {
					continue
				}
				for _, refForm := range []string{"iri", "sparse-object", "same-pointer"} {
					f1, f2, refForm := *f1, *f2, refForm
					class := "C11|clean|" + h.Name
					c.Do(class, func() string {
						return fmt.Sprintf("*%s with %s = reference (%s) to the identity whose carrier (with bto/bcc) is embedded in %s ; Clean()", h.Name, f1.Term, refForm, f2.Term)
					}, func(t *engine.T) {
						g := &universe.Gen{}
						p := universe.Embedded(h, g, true, true)
						c11Private(g, p)
						carrier := universe.Embedded(universe.ByName("Actor"), g, true, true)
						c11Private(g, carrier)
						id := carrier.Elem().FieldByName("ID").Interface().(ap.IRI)
						var ref ap.Item
						switch refForm {
						case "iri":
							ref = id
						case "sparse-object":
							ref = &ap.Object{ID: id}
						default:
							ref = carrier.Interface().(ap.Item)
						}
						set := func(f universe.Field, it ap.Item) {
							fv := p.Elem().Field(f.Index)
							if f.Kind == universe.KItems {
								fv.Set(reflect.ValueOf(ap.ItemCollection{it}))
							} else {
								fv.Set(reflect.ValueOf(it).Convert(fv.Type()))
							}
						}
						set(f1, ref)
						set(f2, carrier.Interface().(ap.Item))
						v := p.Interface()
						before := canon.Of(v, canon.Raw)
						want, _ := c11Expect(before)
						t.State(engine.Hash64("c11same", before.String()), true)
						v.(ap.HasRecipients).Clean()
						t.Ops(1)
						for _, d := range canon.Diff(want, canon.Of(v, canon.Raw)) {
							term := canon.LastTerm(d.Path)
							what := "other-property-" + d.Symptom
							if (term == "bto" || term == "bcc") && d.Symptom == "invented" {
								what = "private-recipients-left"
							}
							t.Fail(fmt.Sprintf("C11|clean|%s|%s|same-identity-elsewhere|%s", h.Name, term, what), "%s at %s", d, d.Path)
						}
					})
				}
			}
		}
		for _, term := range walked {
			f := h.FieldByTerm(term)
			if f == nil {
				continue
			}
			for _, emptyForm := range []string{"both-empty-with-capacity", "bto-nil-bcc-empty-with-capacity", "emptied-by-reslicing"} {
				f, emptyForm := *f, emptyForm
				class := "C11|clean|" + h.Name
				c.Do(class, func() string {
					return fmt.Sprintf("*%s whose own bto/bcc are %s, with a carrier embedded in %s ; Clean()", h.Name, emptyForm, f.Term)
				}, func(t *engine.T) {
					g := &universe.Gen{}
					p := universe.Embedded(h, g, true, true)
					e := p.Elem()
					switch emptyForm {
					case "both-empty-with-capacity":
						e.FieldByName("Bto").Set(reflect.ValueOf(make(ap.ItemCollection, 0, 4)))
						e.FieldByName("BCC").Set(reflect.ValueOf(make(ap.ItemCollection, 0, 4)))
					case "bto-nil-bcc-empty-with-capacity":
						e.FieldByName("BCC").Set(reflect.ValueOf(make(ap.ItemCollection, 0, 2)))
					default:
						full := ap.ItemCollection{g.IRI(), g.IRI()}
						e.FieldByName("Bto").Set(reflect.ValueOf(full[:0]))
						e.FieldByName("BCC").Set(reflect.ValueOf(full[:0:1]))
					}
					carrier := universe.Embedded(universe.ByName("Object"), g, true, true)
					c11Private(g, carrier)
					fv := e.Field(f.Index)
					if f.Kind == universe.KItems {
						fv.Set(reflect.ValueOf(ap.ItemCollection{carrier.Interface().(ap.Item)}))
					} else {
						fv.Set(carrier)
					}
					v := p.Interface()
					before := canon.Of(v, canon.Raw)
					want, _ := c11Expect(before)
					t.State(engine.Hash64("c11cap", before.String()), true)
					v.(ap.HasRecipients).Clean()
					t.Ops(1)
					for _, d := range canon.Diff(want, canon.Of(v, canon.Raw)) {
						term := canon.LastTerm(d.Path)
						what := "other-property-" + d.Symptom
						if (term == "bto" || term == "bcc") && d.Symptom == "invented" {
							what = "private-recipients-left"
						}
						t.Fail(fmt.Sprintf("C11|clean|%s|%s|empty-with-capacity|%s", h.Name, term, what), "%s at %s", d, d.Path)
					}
				})
			}
		}
	}
	// every list property of the host is a window into ONE backing array, the private lists first: truncating or wiping bto/bcc
	// must not reach into the neighbouring windows
	for _, h := range hosts {
		h := h
		for _, order := range [][]string{{"Bto", "BCC", "To", "CC", "Audience", "Tag"}, {"BCC", "Tag", "Bto", "To", "CC", "Audience"}, {"To", "Bto", "CC", "BCC", "Tag", "Audience"}} {
			order := order
			class := "C11|clean|" + h.Name
			c.Do(class, func() string {
				return fmt.Sprintf("*%s whose %v are consecutive two-member windows of one backing array ; Clean()", h.Name, order)
			}, func(t *engine.T) {
				g := &universe.Gen{}
				p := universe.Embedded(h, g, true, true)
				backing := make(ap.ItemCollection, 0, 2*len(order)+2)
				for i := 0; i < 2*len(order)+2; i++ {
					backing = append(backing, g.IRI())
				}
				for k, name := range order {
					p.Elem().FieldByName(name).Set(reflect.ValueOf(backing[2*k : 2*k+2]))
				}
				v := p.Interface()
				before := canon.Of(v, canon.Raw)
				want, _ := c11Expect(before)
				t.State(engine.Hash64("c11shared", before.String()), true)
				v.(ap.HasRecipients).Clean()
				t.Ops(1)
				for _, d := range canon.Diff(want, canon.Of(v, canon.Raw)) {
					term := canon.LastTerm(d.Path)
					what := "other-property-" + d.Symptom
					if (term == "bto" || term == "bcc") && d.Symptom == "invented" {
						what = "private-recipients-left"
					}
					t.Fail(fmt.Sprintf("C11|clean|%s|%s|shared-backing-array|%s", h.Name, term, what), "%s", d)
				}
				// the two spare slots after the last window belong to nobody, but the members of the other windows must still be there
				for k, name := range order {
					if name == "Bto" || name == "BCC" {
						continue
					}
					got := reflect.ValueOf(v).Elem().FieldByName(name).Interface().(ap.ItemCollection)
					if len(got) != 2 || got[0] == nil || got[1] == nil {
						t.Fail(fmt.Sprintf("C11|clean|%s|%s|shared-backing-array|members-wiped", h.Name, strings.ToLower(name)), "window %d (%s) is %v after Clean()", k, name, got)
					}
				}
			})
		}
	}
	var vocabNames []string
	for n := range c07Vocabulary {
		vocabNames = append(vocabNames, n)
	}
	sortStrings(vocabNames) // the enumeration order must be the same in every worker process
	for _, name := range vocabNames {
		entry := c07Vocabulary[name]
		st := universe.ByName(entry[0])
		if st == nil || !c11HasClean(st.Name) {
			continue
		}
		name, st := name, st
		for _, embedded := range []bool{false, true} {
			embedded := embedded
			class := "C11|clean-by-type-name|" + st.Name
			c.Do(class, func() string {
				return fmt.Sprintf("*%s typed %q whose to/cc/audience mention the ids of its own item properties (embedded=%v); Clean()", st.Name, name, embedded)
			}, func(t *engine.T) {
				g := &universe.Gen{}
				p := universe.Embedded(st, g, true, true)
				e := p.Elem()
				e.FieldByName("Type").SetString(name)
				c11Private(g, p)
				var ids ap.ItemCollection
				for _, f := range st.ItemFields() {
					if f.Kind != universe.KItem {
						continue
					}
					id := g.IRI()
					ids = append(ids, id)
					if embedded {
						o := universe.Embedded(universe.ByName("Object"), g, true, true)
						o.Elem().FieldByName("ID").Set(reflect.ValueOf(id))
						c11Private(g, o)
						e.Field(f.Index).Set(o)
					} else {
						e.Field(f.Index).Set(reflect.ValueOf(id))
					}
				}
				for _, l := range []string{"To", "CC", "Audience"} {
					col := append(ap.ItemCollection{g.IRI()}, ids...)
					e.FieldByName(l).Set(reflect.ValueOf(col))
				}
				v := p.Interface()
				before := canon.Of(v, canon.Raw)
				want, _ := c11Expect(before)
				t.State(engine.Hash64("c11name", before.String()), true)
				v.(ap.HasRecipients).Clean()
				t.Ops(1)
				for _, d := range canon.Diff(want, canon.Of(v, canon.Raw)) {
					term := canon.LastTerm(d.Path)
					what := "other-property-" + d.Symptom
					if (term == "bto" || term == "bcc") && d.Symptom == "invented" {
						what = "private-recipients-left"
					}
					t.Fail(fmt.Sprintf("C11|clean-by-type-name|%s|%s|%s|%s", st.Name, name, term, what), "%s", d)
				}
			})
		}
	}
	// ItemCollection.Clean over mixed members
	for _, nt := range nodeTypes {
		for _, inner := range stepsFor(universe.ByName(nt), true) {
			nt, inner := nt, inner
			class := "C11|clean|ItemCollection"
			c.Do(class, func() string { return fmt.Sprintf("ItemCollection{iri, *%s . %s, nil}.Clean()", nt, inner) }, func(t *engine.T) {
				member := c11Build(universe.ByName(nt), []c11Step{inner}).(ap.Item)
				col := ap.ItemCollection{ap.IRI("https://example.com/x"), member, nil}
				before := canon.Of(member, canon.Raw)
				want, _ := c11Expect(before)
				t.State(engine.Hash64("c11col", before.String()), true)
				col.Clean()
				t.Ops(1)
				if len(col) != 3 || col[0] != ap.IRI("https://example.com/x") || col[1] != member || col[2] != nil {
					t.Fail(class+"|members-changed", "members after Clean: %v", col)
				}
				for _, d := range canon.Diff(want, canon.Of(member, canon.Raw)) {
					t.Fail(fmt.Sprintf("C11|clean|ItemCollection|%s|%s|%s", d.Owner, canon.LastTerm(d.Path), d.Symptom), "%s", d)
				}
			})
		}
	}
}
