package checks

// Application-defined types with the layout of a vocabulary struct ("type Note activitypub.Object" plus the Item methods): the
// typed views accept such values by reflection, so they are part of the space the property quantifies over ("never reach
// outside the value" must hold whatever the dynamic type of the item is, and whatever was converted before).
// Generated once by hand; one type per vocabulary struct.

import (
	"reflect"

	ap "github.com/go-ap/activitypub"
)

type foreignObject ap.Object

func (f *foreignObject) GetLink() ap.IRI                    { return f.ID }
func (f *foreignObject) GetType() ap.ActivityVocabularyType { return f.Type }
func (f *foreignObject) GetID() ap.ID                       { return f.ID }
func (f *foreignObject) IsLink() bool                       { return false }
func (f *foreignObject) IsObject() bool                     { return true }
func (f *foreignObject) IsCollection() bool                 { return false }

type foreignActor ap.Actor

func (f *foreignActor) GetLink() ap.IRI                    { return f.ID }
func (f *foreignActor) GetType() ap.ActivityVocabularyType { return f.Type }
func (f *foreignActor) GetID() ap.ID                       { return f.ID }
func (f *foreignActor) IsLink() bool                       { return false }
func (f *foreignActor) IsObject() bool                     { return true }
func (f *foreignActor) IsCollection() bool                 { return false }

type foreignActivity ap.Activity

func (f *foreignActivity) GetLink() ap.IRI                    { return f.ID }
func (f *foreignActivity) GetType() ap.ActivityVocabularyType { return f.Type }
func (f *foreignActivity) GetID() ap.ID                       { return f.ID }
func (f *foreignActivity) IsLink() bool                       { return false }
func (f *foreignActivity) IsObject() bool                     { return true }
func (f *foreignActivity) IsCollection() bool                 { return false }

type foreignIntransitiveActivity ap.IntransitiveActivity

func (f *foreignIntransitiveActivity) GetLink() ap.IRI                    { return f.ID }
func (f *foreignIntransitiveActivity) GetType() ap.ActivityVocabularyType { return f.Type }
func (f *foreignIntransitiveActivity) GetID() ap.ID                       { return f.ID }
func (f *foreignIntransitiveActivity) IsLink() bool                       { return false }
func (f *foreignIntransitiveActivity) IsObject() bool                     { return true }
func (f *foreignIntransitiveActivity) IsCollection() bool                 { return false }

type foreignQuestion ap.Question

func (f *foreignQuestion) GetLink() ap.IRI                    { return f.ID }
func (f *foreignQuestion) GetType() ap.ActivityVocabularyType { return f.Type }
func (f *foreignQuestion) GetID() ap.ID                       { return f.ID }
func (f *foreignQuestion) IsLink() bool                       { return false }
func (f *foreignQuestion) IsObject() bool                     { return true }
func (f *foreignQuestion) IsCollection() bool                 { return false }

type foreignCollection ap.Collection

func (f *foreignCollection) GetLink() ap.IRI                    { return f.ID }
func (f *foreignCollection) GetType() ap.ActivityVocabularyType { return f.Type }
func (f *foreignCollection) GetID() ap.ID                       { return f.ID }
func (f *foreignCollection) IsLink() bool                       { return false }
func (f *foreignCollection) IsObject() bool                     { return true }
func (f *foreignCollection) IsCollection() bool                 { return true }

type foreignCollectionPage ap.CollectionPage

func (f *foreignCollectionPage) GetLink() ap.IRI                    { return f.ID }
func (f *foreignCollectionPage) GetType() ap.ActivityVocabularyType { return f.Type }
func (f *foreignCollectionPage) GetID() ap.ID                       { return f.ID }
func (f *foreignCollectionPage) IsLink() bool                       { return false }
func (f *foreignCollectionPage) IsObject() bool                     { return true }
func (f *foreignCollectionPage) IsCollection() bool                 { return true }

type foreignOrderedCollection ap.OrderedCollection

func (f *foreignOrderedCollection) GetLink() ap.IRI                    { return f.ID }
func (f *foreignOrderedCollection) GetType() ap.ActivityVocabularyType { return f.Type }
func (f *foreignOrderedCollection) GetID() ap.ID                       { return f.ID }
func (f *foreignOrderedCollection) IsLink() bool                       { return false }
func (f *foreignOrderedCollection) IsObject() bool                     { return true }
func (f *foreignOrderedCollection) IsCollection() bool                 { return true }

type foreignOrderedCollectionPage ap.OrderedCollectionPage

func (f *foreignOrderedCollectionPage) GetLink() ap.IRI                    { return f.ID }
func (f *foreignOrderedCollectionPage) GetType() ap.ActivityVocabularyType { return f.Type }
func (f *foreignOrderedCollectionPage) GetID() ap.ID                       { return f.ID }
func (f *foreignOrderedCollectionPage) IsLink() bool                       { return false }
func (f *foreignOrderedCollectionPage) IsObject() bool                     { return true }
func (f *foreignOrderedCollectionPage) IsCollection() bool                 { return true }

type foreignPlace ap.Place

func (f *foreignPlace) GetLink() ap.IRI                    { return f.ID }
func (f *foreignPlace) GetType() ap.ActivityVocabularyType { return f.Type }
func (f *foreignPlace) GetID() ap.ID                       { return f.ID }
func (f *foreignPlace) IsLink() bool                       { return false }
func (f *foreignPlace) IsObject() bool                     { return true }
func (f *foreignPlace) IsCollection() bool                 { return false }

type foreignProfile ap.Profile

func (f *foreignProfile) GetLink() ap.IRI                    { return f.ID }
func (f *foreignProfile) GetType() ap.ActivityVocabularyType { return f.Type }
func (f *foreignProfile) GetID() ap.ID                       { return f.ID }
func (f *foreignProfile) IsLink() bool                       { return false }
func (f *foreignProfile) IsObject() bool                     { return true }
func (f *foreignProfile) IsCollection() bool                 { return false }

type foreignRelationship ap.Relationship

func (f *foreignRelationship) GetLink() ap.IRI                    { return f.ID }
func (f *foreignRelationship) GetType() ap.ActivityVocabularyType { return f.Type }
func (f *foreignRelationship) GetID() ap.ID                       { return f.ID }
func (f *foreignRelationship) IsLink() bool                       { return false }
func (f *foreignRelationship) IsObject() bool                     { return true }
func (f *foreignRelationship) IsCollection() bool                 { return false }

type foreignTombstone ap.Tombstone

func (f *foreignTombstone) GetLink() ap.IRI                    { return f.ID }
func (f *foreignTombstone) GetType() ap.ActivityVocabularyType { return f.Type }
func (f *foreignTombstone) GetID() ap.ID                       { return f.ID }
func (f *foreignTombstone) IsLink() bool                       { return false }
func (f *foreignTombstone) IsObject() bool                     { return true }
func (f *foreignTombstone) IsCollection() bool                 { return false }

type foreignLink ap.Link

func (f *foreignLink) GetLink() ap.IRI                    { return f.ID }
func (f *foreignLink) GetType() ap.ActivityVocabularyType { return f.Type }
func (f *foreignLink) GetID() ap.ID                       { return f.ID }
func (f *foreignLink) IsLink() bool                       { return true }
func (f *foreignLink) IsObject() bool                     { return false }
func (f *foreignLink) IsCollection() bool                 { return false }

// c08Foreign converts a pointer to a vocabulary struct into a pointer to the application-defined twin type (same memory).
func c08Foreign(p any) ap.Item {
	switch v := p.(type) {
	case *ap.Object:
		return (*foreignObject)(v)
	case *ap.Actor:
		return (*foreignActor)(v)
	case *ap.Activity:
		return (*foreignActivity)(v)
	case *ap.IntransitiveActivity:
		return (*foreignIntransitiveActivity)(v)
	case *ap.Question:
		return (*foreignQuestion)(v)
	case *ap.Collection:
		return (*foreignCollection)(v)
	case *ap.CollectionPage:
		return (*foreignCollectionPage)(v)
	case *ap.OrderedCollection:
		return (*foreignOrderedCollection)(v)
	case *ap.OrderedCollectionPage:
		return (*foreignOrderedCollectionPage)(v)
	case *ap.Place:
		return (*foreignPlace)(v)
	case *ap.Profile:
		return (*foreignProfile)(v)
	case *ap.Relationship:
		return (*foreignRelationship)(v)
	case *ap.Tombstone:
		return (*foreignTombstone)(v)
	case *ap.Link:
		return (*foreignLink)(v)
	}
	return nil
}

var _ = reflect.TypeOf
