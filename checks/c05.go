package checks

import (
	"bytes"
	"encoding/json"
	"fmt"
	"os"
	"path/filepath"
	"reflect"
	"regexp"
	"sort"
	"strconv"
	"strings"
	"time"

	ap "github.com/go-ap/activitypub"

	"verif/internal/canon"
	"verif/internal/engine"
	"verif/internal/jsonref"
	"verif/internal/universe"
)

// C05 — decoding reads what the document says, and re-encoding is a fixpoint (DESIGN.md §3 C05).
//
// Two sources of documents, both written by encoding/json and never by the library's encoder:
//  (1) documents generated from the vocabulary model: every value of the universe is turned into a document by an independent
//      writer (reflection over the jsonld tags) in two admissible shape variants ("compact": singles as scalars, plain strings;
//      "expanded": arrays everywhere, language maps under <term>Map, zoned instants, total-seconds durations, @context and an
//      unknown member); the expectation is the canonical tree of the value itself;
//  (2) the repository's mock documents and every single structure-preserving mutation of them; the expectation comes from a
//      reference decoder over encoding/json that interprets a document with the vocabulary model.

// ---- independent writer

func c05Write(v reflect.Value, expanded bool) any {
	switch x := v.Interface().(type) {
	case time.Time:
		if expanded {
			return x.In(time.FixedZone("", 2*3600)).Format(time.RFC3339)
		}
		return x.UTC().Format(time.RFC3339)
	case time.Duration:
		return c05XSD(x, expanded)
	case ap.NaturalLanguageValues:
		return nil // handled by the struct writer (term vs termMap)
	case ap.IRI:
		return string(x)
	case ap.ItemCollection:
		arr := []any{}
		for _, it := range x {
			arr = append(arr, c05WriteItem(it, expanded))
		}
		return arr
	case ap.IRIs:
		arr := []any{}
		for _, it := range x {
			arr = append(arr, string(it))
		}
		return arr
	}
	switch v.Kind() {
	case reflect.String:
		return v.String()
	case reflect.Bool:
		return v.Bool()
	case reflect.Int, reflect.Int64:
		return v.Int()
	case reflect.Uint, reflect.Uint64:
		return v.Uint()
	case reflect.Float64:
		return v.Float()
	case reflect.Pointer, reflect.Interface:
		if v.IsNil() {
			return nil
		}
		if it, ok := v.Interface().(ap.Item); ok {
			return c05WriteItem(it, expanded)
		}
		return c05Write(v.Elem(), expanded)
	case reflect.Struct:
		return c05WriteStruct(v, expanded)
	}
	return nil
}

func c05WriteItem(it ap.Item, expanded bool) any {
	switch x := it.(type) {
	case nil:
		return nil
	case ap.IRI:
		return string(x)
	case ap.ItemCollection, ap.IRIs:
		return c05Write(reflect.ValueOf(x), expanded)
	}
	rv := reflect.ValueOf(it)
	if rv.Kind() == reflect.Pointer {
		if rv.IsNil() {
			return nil
		}
		rv = rv.Elem()
	}
	return c05WriteStruct(rv, expanded)
}

func c05WriteStruct(v reflect.Value, expanded bool) any {
	m := map[string]any{}
	t := v.Type()
	for i := 0; i < t.NumField(); i++ {
		sf := t.Field(i)
		term := universe.Term(sf)
		if term == "" || !sf.IsExported() {
			continue
		}
		fv := v.Field(i)
		if canon.Of(fv.Interface(), canon.JSON) == nil {
			continue
		}
		if n, ok := fv.Interface().(ap.NaturalLanguageValues); ok {
			if len(n) == 1 && (n[0].Ref == ap.NilLangRef || n[0].Ref == "" || !expanded) {
				m[term] = string(n[0].Value)
				continue
			}
			lm := map[string]any{}
			plain := 0
			for _, e := range n {
				if e.Ref == ap.NilLangRef || e.Ref == "" {
					plain++
				}
			}
			for _, e := range n {
				if e.Ref == ap.NilLangRef || e.Ref == "" {
					if !expanded && plain == 1 {
						m[term] = string(e.Value) // the way most implementations write it: plain text beside the map
						continue
					}
					lm["und"] = string(e.Value)
					continue
				}
				lm[string(e.Ref)] = string(e.Value)
			}
			m[term+"Map"] = lm
			continue
		}
		w := c05Write(fv, expanded)
		if w == nil {
			continue
		}
		single := sf.Type.Kind() == reflect.Interface
		if arr, isArr := w.([]any); isArr {
			if !expanded && len(arr) == 1 {
				w = arr[0] // compact: a one-element list is written as the element
			}
		} else if expanded && single {
			w = []any{w} // expanded: a single item is written as a one-element array
		}
		m[term] = w
	}
	return m
}

func c05XSD(d time.Duration, totalSeconds bool) string {
	neg := ""
	if d < 0 {
		neg, d = "-", -d
	}
	secs := int64(d / time.Second)
	if totalSeconds {
		return fmt.Sprintf("%sPT%dS", neg, secs)
	}
	h, mi, s := secs/3600, (secs%3600)/60, secs%60
	out := neg + "PT"
	if h > 0 {
		out += fmt.Sprintf("%dH", h)
	}
	if mi > 0 {
		out += fmt.Sprintf("%dM", mi)
	}
	if s > 0 || (h == 0 && mi == 0) {
		out += fmt.Sprintf("%dS", s)
	}
	return out
}

// ---- reference decoder (vocabulary model over encoding/json)

var c05XSDRe = regexp.MustCompile(`^(-?)P(?:(\d+)D)?(?:T(?:(\d+)H)?(?:(\d+)M)?(?:(\d+(?:\.\d+)?)S)?)?$`)

func c05Ref(doc any, single bool) *canon.Node {
	switch x := doc.(type) {
	case string:
		if x == "" {
			return nil
		}
		return &canon.Node{K: "str", S: x}
	case []any:
		n := &canon.Node{K: "list"}
		for _, e := range x {
			if c := c05Ref(e, false); c != nil {
				n.L = append(n.L, c)
			}
		}
		if len(n.L) == 0 {
			return nil
		}
		if single && len(n.L) == 1 {
			return n.L[0]
		}
		return n
	case map[string]any:
		return c05RefObject(x)
	}
	return nil
}

func c05RefObject(m map[string]any) *canon.Node {
	tn, _ := m["type"].(string)
	structName := "Object"
	if e, ok := c07Vocabulary[tn]; ok {
		structName = e[0]
	}
	return c05RefStruct(universe.ByName(structName), m)
}

func c05RefStruct(st *universe.Struct, m map[string]any) *canon.Node {
	n := &canon.Node{K: "obj", T: st.Name, F: map[string]*canon.Node{}}
	for _, f := range st.Fields {
		raw, has := m[f.Term]
		var c *canon.Node
		switch f.Kind {
		case universe.KNLV:
			var lang [][2]string
			add := func(v any) {
				switch lv := v.(type) {
				case string:
					if lv != "" {
						lang = append(lang, [2]string{"-", lv})
					}
				case map[string]any:
					for tag, txt := range lv {
						if s, ok := txt.(string); ok && s != "" {
							if tag == "und" || tag == "" {
								tag = "-" // BCP 47 "undetermined" is how a language map says "no tag"
							}
							lang = append(lang, [2]string{tag, s})
						}
					}
				}
			}
			if has {
				add(raw)
			}
			if mp, ok := m[f.Term+"Map"]; ok {
				add(mp)
			}
			if len(lang) > 0 {
				if len(lang) == 1 {
					lang[0][0] = "-"
				}
				sort.Slice(lang, func(i, j int) bool { return lang[i][0]+"\x00"+lang[i][1] < lang[j][0]+"\x00"+lang[j][1] })
				c = &canon.Node{K: "lang", Lang: lang}
			}
		case universe.KItem:
			if has {
				c = c05Ref(raw, true)
			}
		case universe.KItems:
			if has {
				c = c05Ref(raw, false)
				if c != nil && c.K != "list" {
					c = &canon.Node{K: "list", L: []*canon.Node{c}}
				}
			}
		case universe.KTime:
			if s, ok := raw.(string); ok {
				if tm, err := time.Parse(time.RFC3339Nano, s); err == nil && !tm.IsZero() {
					c = &canon.Node{K: "time", S: tm.UTC().Truncate(time.Second).Format(time.RFC3339Nano)} // N2: whole seconds, as canon.Of in JSON mode
				}
			}
		case universe.KDuration:
			if s, ok := raw.(string); ok {
				if g := c05XSDRe.FindStringSubmatch(s); g != nil {
					var d float64
					mul := []float64{0, 0, 86400, 3600, 60, 1}
					for i := 2; i <= 5; i++ {
						if g[i] != "" {
							v, _ := strconv.ParseFloat(g[i], 64)
							d += v * mul[i]
						}
					}
					ns := int64(d * 1e9)
					if g[1] == "-" {
						ns = -ns
					}
					if ns != 0 {
						c = &canon.Node{K: "num", S: "dur:" + strconv.FormatInt(ns, 10)}
					}
				}
			}
		case universe.KFloat, universe.KInt, universe.KUint:
			if num, ok := raw.(json.Number); ok {
				if fl, err := num.Float64(); err == nil && fl != 0 {
					if f.Kind == universe.KFloat {
						c = &canon.Node{K: "num", S: strconv.FormatFloat(fl, 'g', -1, 64)}
					} else if iv, err := strconv.ParseInt(num.String(), 10, 64); err == nil {
						c = &canon.Node{K: "num", S: strconv.FormatInt(iv, 10)} // integer literals are read exactly
					} else {
						c = &canon.Node{K: "num", S: strconv.FormatInt(int64(fl), 10)}
					}
				}
			}
		case universe.KBool:
			if b, ok := raw.(bool); ok && b {
				c = &canon.Node{K: "bool", S: "true"}
			}
		case universe.KIRI, universe.KMime, universe.KLangRef, universe.KVocabType, universe.KString:
			if s, ok := raw.(string); ok && s != "" {
				c = &canon.Node{K: "str", S: s}
			}
		case universe.KSource, universe.KPublicKey, universe.KEndpoints:
			if mm, ok := raw.(map[string]any); ok {
				name := map[universe.Kind]string{universe.KSource: "Source", universe.KPublicKey: "PublicKey", universe.KEndpoints: "Endpoints"}[f.Kind]
				c = c05RefStruct(universe.ByName(name), mm)
			}
		}
		if c != nil {
			n.F[f.Term] = c
		}
	}
	if len(n.F) == 0 {
		return nil
	}
	return n
}

func c05ParseDoc(b []byte) (any, error) {
	dec := json.NewDecoder(bytes.NewReader(b))
	dec.UseNumber()
	var doc any
	err := dec.Decode(&doc)
	return doc, err
}

// ---- the check

func init() {
	engine.Register(&engine.Check{
		ID: "C05", Name: "decode-fixpoint", Level: "model_checking",
		Rule: "(1) every value of the universe (level 0, level 1 all shapes, saturated, depth 2; thorough adds level 2) written as a document by an independent reflection writer + encoding/json in two admissible " +
			"shape variants (compact / expanded with arrays, <term>Map, zoned instants, total-second durations, @context, an unknown member); (2) the repository's 18 item mock documents and every single " +
			"structure-preserving mutation (delete a member, wrap a scalar in a 1-array, replace an embedded object by its id, name <-> nameMap) interpreted by a reference decoder over encoding/json; " +
			"oracle: Go type named by the document, canonical tree of the decoded value == expectation (N1-N6), decode(encode(v)) == v, encode twice byte-identical; non-trivial = document with a property beyond id/type",
		Assumptions: []string{"the independent writer and the reference decoder share the vocabulary model (jsonld tags by reflection, kind table, type-name table of C07)",
			"the writer and the reference decoder are validated against each other on every generated document (writer ∘ reference decoder = canon of the value)"},
		Bound: func(tier string) string {
			if tier == "thorough" {
				return "levels 0,1,2,saturated, depth 2 (all shapes) x 2 variants; mocks x all single mutations; boundary-length strings in 11 string positions; one identity in every pair of item properties; every decode is followed by two unrelated decodes before the comparison; IRI forms; generic type names; every level-1 / saturated document additionally in six other legal presentations (white space and CR LF everywhere; every string and member name in \\uXXXX escapes; members in reverse order; explicit null members; @context first; instants with a numeric zone offset and a fraction); families added after round 5: DESIGN.md 8.11"
			}
			return "levels 0,1,saturated, depth 2 (q shapes) x 2 variants; mocks x all single mutations; boundary-length strings in 11 string positions; one identity in every pair of item properties; every decode is followed by two unrelated decodes before the comparison; IRI forms; generic type names; every level-1 / saturated document additionally in six other legal presentations (white space and CR LF everywhere; every string and member name in \\uXXXX escapes; members in reverse order; explicit null members; @context first; instants with a numeric zone offset and a fraction); families added after round 5: DESIGN.md 8.11"
		},
		DeadlineQuick: 6 * time.Minute, DeadlineThorough: 45 * time.Minute,
		Run: c05Run,
	})
}

func c05Judge(t *engine.T, label, topStruct string, docBytes []byte, want *canon.Node) {
	got, err := ap.UnmarshalJSON(docBytes)
	t.Ops(1)
	if err != nil {
		t.Fail("C05|"+label+"|"+topStruct+"|*|decode-error", "UnmarshalJSON failed: %v\ndoc: %s", err, docBytes)
		return
	}
	// what was read must not depend on what the decoder does next: two unrelated decodes before the value is looked at
	disturb(len(docBytes))
	if want == nil {
		if canon.Of(got, canon.JSON) != nil {
			t.Fail("C05|"+label+"|"+topStruct+"|*|invented-value", "an empty document decoded to %s", canon.Of(got, canon.JSON))
		}
		return
	}
	if want.K == "obj" {
		if gt := structNameOf(got); gt != want.T {
			t.Fail(fmt.Sprintf("C05|%s|%s|*|go-type:%s", label, topStruct, gt), "the document names a %s, decoded %T\ndoc: %s", want.T, got, docBytes)
		}
	}
	gc := canon.Of(got, canon.JSON)
	for _, d := range canon.Diff(want, gc) {
		if d.Path == "" && strings.HasPrefix(d.Symptom, "type-changed") {
			continue
		}
		t.Fail("C05|"+label+"|"+deltaKey(topStruct, d), "%s\ndoc: %s", d, docBytes)
	}
	if got == nil || gc == nil {
		return
	}
	// fixpoint
	e1, err := ap.MarshalJSON(got)
	t.Ops(1)
	if err != nil || len(e1) == 0 {
		t.Fail("C05|fixpoint|"+topStruct+"|*|re-encode-failed", "MarshalJSON(decoded) = %d bytes, %v", len(e1), err)
		return
	}
	v2, err := ap.UnmarshalJSON(e1)
	if err != nil {
		t.Fail("C05|fixpoint|"+topStruct+"|*|re-decode-failed", "%v\n%s", err, e1)
		return
	}
	disturb(len(e1))
	if again := canon.Of(got, canon.JSON); !canon.Equal(gc, again) {
		ds := canon.Diff(gc, again)
		t.Fail("C05|decoded-value-not-stable|"+deltaKey(topStruct, ds[0]), "the decoded value changed while later documents were decoded: %s\ndoc: %s", ds[0], docBytes)
	}
	for _, d := range canon.Diff(gc, canon.Of(v2, canon.JSON)) {
		t.Fail("C05|fixpoint|"+deltaKey(topStruct, d), "decode(encode(v)) differs from v: %s\nencoded: %s", d, e1)
	}
	// decoding is a function of the document: the same bytes decode to the same value every time, language entries in document
	// order included (8 decodes when there is a list of two or more entries)
	if canon.HasMultiLang(gc) {
		for round := 0; round < 8; round++ {
			again, err := ap.UnmarshalJSON(docBytes)
			if err != nil {
				break
			}
			ac := canon.Of(again, canon.JSON)
			if where := canon.OrderDiff(gc, ac); where != "" || !canon.Equal(gc, ac) {
				t.Fail("C05|decode-not-deterministic|"+topStruct+"|"+canon.LastTerm(where), "decoding the same document again (round %d) gave another value / another order of %s\ndoc: %s", round, where, docBytes)
				break
			}
			if where := canon.OrderDiff(gc, canon.Of(v2, canon.JSON)); where != "" {
				t.Fail("C05|fixpoint|"+topStruct+"|"+canon.LastTerm(where)+"|lang-order-changed", "decode(encode(v)) holds the entries of %s in another order\nencoded: %s", where, e1)
				break
			}
		}
	}
	e2, err := ap.MarshalJSON(v2)
	t.Ops(2)
	if err != nil || !bytes.Equal(e1, e2) {
		t.Fail("C05|fixpoint|"+topStruct+"|*|bytes-not-stable", "second encoding differs (err=%v)\nfirst:  %s\nsecond: %s", err, e1, e2)
	}
}

func c05Run(c *engine.Ctx) {
	gen := func(r universe.Recipe) {
		for _, expanded := range []bool{false, true} {
			expanded := expanded
			variant := "compact"
			if expanded {
				variant = "expanded"
			}
			c.Do("C05|generated|"+r.Struct.Name, func() string { return variant + " document for " + r.String() }, func(t *engine.T) {
				x := r.Build()
				want := canon.Of(x, canon.JSON)
				rv := reflect.ValueOf(x)
				if rv.Kind() == reflect.Pointer {
					rv = rv.Elem()
				}
				m := c05WriteStruct(rv, expanded).(map[string]any)
				if expanded {
					m["@context"] = []any{"https://www.w3.org/ns/activitystreams", map[string]any{"x": "https://example.com/ns#x"}}
					m["x-unknown-member"] = map[string]any{"id": "https://example.com/ignored", "type": "Note"}
				}
				docBytes, err := json.Marshal(m)
				if err != nil {
					t.Fail("C05|harness|writer", "encoding/json failed: %v", err)
					return
				}
				t.State(engine.Hash64(variant, want.String()), len(r.Sets) > 0)
				// machinery self-check: the reference decoder must read the writer's document back to the value's canon
				doc, _ := c05ParseDoc(docBytes)
				if ref := c05Ref(doc, true); !canon.Equal(ref, want) {
					ds := canon.Diff(want, ref)
					t.Fail("C05|harness|writer-vs-reference|"+r.Struct.Name+"|"+canon.LastTerm(ds[0].Path), "writer and reference decoder disagree (machinery defect): %s\ndoc: %s", ds[0], docBytes)
					return
				}
				c05Judge(t, "generated:"+variant, r.Struct.Name, docBytes, want)
			})
		}
	}
	named := func(r universe.Recipe) {
		if r.TypeName == "" && r.Struct.Name != "Object" {
			return // a document without a type names no type other than the plain object
		}
		gen(r)
	}
	// the same document in other legal presentations (RFC 8259 / RFC 3339 leave these to the writer): white space, \uXXXX
	// escapes in every string and member name, members in reverse order ("type" and "id" late), explicit null members,
	// "@context" first, instants with a numeric zone offset and a fraction
	zone := time.FixedZone("", 2*3600)
	presentations := []struct {
		name string
		opts func(st *universe.Struct) jsonref.RenderOpts
	}{
		{"indented", func(*universe.Struct) jsonref.RenderOpts { return jsonref.RenderOpts{Indent: true} }},
		{"escaped", func(*universe.Struct) jsonref.RenderOpts { return jsonref.RenderOpts{EscapeAll: true} }},
		{"reversed", func(*universe.Struct) jsonref.RenderOpts { return jsonref.RenderOpts{ReverseOrder: true} }},
		{"nulls", func(st *universe.Struct) jsonref.RenderOpts {
			var names []string
			for _, f := range st.PropertyFields() {
				names = append(names, "x-null-"+f.Term) // never collides with a set member
			}
			return jsonref.RenderOpts{NullMembers: names[:3]}
		}},
		{"context", func(*universe.Struct) jsonref.RenderOpts { return jsonref.RenderOpts{Context: true, Indent: true} }},
		{"zone-offset", func(*universe.Struct) jsonref.RenderOpts {
			return jsonref.RenderOpts{MapString: func(s string) string {
				if tm, err := time.Parse(time.RFC3339Nano, s); err == nil && len(s) >= 20 {
					return tm.Add(250 * time.Millisecond).In(zone).Format("2006-01-02T15:04:05.000Z07:00")
				}
				return s
			}}
		}},
	}
	present := func(r universe.Recipe) {
		if r.TypeName == "" && r.Struct.Name != "Object" {
			return
		}
		for _, p := range presentations {
			p := p
			c.Do("C05|presented|"+r.Struct.Name, func() string { return p.name + " presentation of the document for " + r.String() }, func(t *engine.T) {
				x := r.Build()
				want := canon.Of(x, canon.JSON)
				rv := reflect.ValueOf(x)
				if rv.Kind() == reflect.Pointer {
					rv = rv.Elem()
				}
				plain, err := json.Marshal(c05WriteStruct(rv, false))
				if err != nil {
					t.Fail("C05|harness|writer", "encoding/json failed: %v", err)
					return
				}
				node, err := jsonref.Parse(plain)
				if err != nil {
					t.Fail("C05|harness|writer", "own document does not parse: %v", err)
					return
				}
				docBytes := jsonref.Render(node, p.opts(r.Struct))
				t.State(engine.Hash64(p.name, want.String()), len(r.Sets) > 0)
				doc, perr := c05ParseDoc(docBytes)
				if perr != nil {
					t.Fail("C05|harness|renderer|"+p.name, "the rendered presentation is not valid JSON (machinery defect): %v\n%s", perr, docBytes)
					return
				}
				if ref := c05Ref(doc, true); !canon.Equal(ref, want) {
					ds := canon.Diff(want, ref)
					t.Fail("C05|harness|writer-vs-reference|"+r.Struct.Name+"|"+canon.LastTerm(ds[0].Path), "renderer and reference decoder disagree (machinery defect): %s\ndoc: %s", ds[0], docBytes)
					return
				}
				c05Judge(t, "presented:"+p.name, r.Struct.Name, docBytes, want)
			})
		}
	}
	for i := range universe.Structs {
		s := &universe.Structs[i]
		universe.Level1(s, universe.JSON, c.Quick(), present)
		universe.Saturated(s, universe.JSON, present)
	}
	for i := range universe.Structs {
		s := &universe.Structs[i]
		universe.Level0(s, named)
		universe.Level1(s, universe.JSON, false, named)
		universe.Saturated(s, universe.JSON, named)
	}
	var emb []universe.Shape
	universe.Depth2Embedded(universe.JSON, c.Quick(), func(sh universe.Shape) { emb = append(emb, sh) })
	for i := range universe.Structs {
		s := &universe.Structs[i]
		fields := s.ItemFields()
		if c.Quick() && len(fields) > 8 {
			fields = append(fields[i%len(fields):], fields[:i%len(fields)]...)[:8]
		}
		for _, f := range fields {
			for _, sh := range emb {
				named(universe.Recipe{Struct: s, TypeName: s.SpecificName(), Sets: []universe.Set{{Field: f, Shape: universe.WrapForField(f, sh)}}})
			}
		}
	}
	universe.Scale(named)
	universe.IRIPresentations(named)
	moreFamilies(universe.JSON, named)
	for i := range universe.Structs {
		universe.GenericNames(&universe.Structs[i], universe.JSON, named)
	}
	for i := range universe.Structs {
		universe.SharedIdentity(&universe.Structs[i], named)
	}
	if !c.Quick() {
		for i := range universe.Structs {
			universe.Level2(&universe.Structs[i], universe.JSON, named)
		}
	}
	// (2) mock documents and their single mutations
	files, _ := filepath.Glob(repoDir() + "/tests/mocks/*.json")
	sort.Strings(files)
	for _, file := range files {
		base := filepath.Base(file)
		raw, err := os.ReadFile(file)
		if err != nil || base == "natural_language_values.json" {
			continue
		}
		doc, err := c05ParseDoc(raw)
		if err != nil {
			continue
		}
		muts := c05Mutations(doc)
		for mi, mu := range muts {
			mu, mi := mu, mi
			c.Do("C05|mock|"+base, func() string { return fmt.Sprintf("%s, mutation #%d: %s", base, mi, mu.name) }, func(t *engine.T) {
				docBytes, err := json.Marshal(mu.doc)
				if err != nil {
					return
				}
				want := c05Ref(mu.doc, true)
				t.State(engine.Hash64("mock", string(docBytes)), true)
				top := "Object"
				if want != nil && want.K == "obj" {
					top = want.T
				}
				c05Judge(t, "mock:"+mu.kind, top, docBytes, want)
			})
		}
	}
}

type c05Mutation struct {
	name, kind string
	doc        any
}

func c05Clone(d any) any {
	switch x := d.(type) {
	case map[string]any:
		m := map[string]any{}
		for k, v := range x {
			m[k] = c05Clone(v)
		}
		return m
	case []any:
		a := make([]any, len(x))
		for i, v := range x {
			a[i] = c05Clone(v)
		}
		return a
	}
	return d
}

// c05Mutations returns the document itself and every single structure-preserving mutation of it.
func c05Mutations(doc any) []c05Mutation {
	out := []c05Mutation{{"original", "original", doc}}
	type loc struct {
		path []any
	}
	var walk func(d any, path []any)
	var locs [][]any
	walk = func(d any, path []any) {
		switch x := d.(type) {
		case map[string]any:
			keys := make([]string, 0, len(x))
			for k := range x {
				keys = append(keys, k)
			}
			sort.Strings(keys)
			for _, k := range keys {
				p := append(append([]any{}, path...), k)
				locs = append(locs, p)
				walk(x[k], p)
			}
		case []any:
			for i, v := range x {
				walk(v, append(append([]any{}, path...), i))
			}
		}
	}
	walk(doc, nil)
	at := func(root any, path []any) (parent any, last any) {
		cur := root
		for _, p := range path[:len(path)-1] {
			switch k := p.(type) {
			case string:
				cur = cur.(map[string]any)[k]
			case int:
				cur = cur.([]any)[k]
			}
		}
		return cur, path[len(path)-1]
	}
	pstr := func(path []any) string {
		s := ""
		for _, p := range path {
			s += fmt.Sprintf("/%v", p)
		}
		return s
	}
	for _, path := range locs {
		key := path[len(path)-1].(string)
		if key == "@context" {
			continue
		}
		// delete one member (not the type of the top-level object: the document would name another type)
		if !(len(path) == 1 && key == "type") {
			d := c05Clone(doc)
			par, _ := at(d, path)
			delete(par.(map[string]any), key)
			out = append(out, c05Mutation{"delete " + pstr(path), "delete-member", d})
		}
		d := c05Clone(doc)
		par, _ := at(d, path)
		m := par.(map[string]any)
		switch v := m[key].(type) {
		case string:
			if key != "type" && key != "id" && key != "mediaType" && !strings.HasSuffix(key, "Map") {
				f := universe.ByName("Object").FieldByTerm(key)
				isText := f != nil && f.Kind == universe.KNLV || key == "preferredUsername"
				if isText {
					d2 := c05Clone(doc)
					p2, _ := at(d2, path)
					mm := p2.(map[string]any)
					mm[key+"Map"] = map[string]any{"en": v}
					delete(mm, key)
					out = append(out, c05Mutation{"name->nameMap " + pstr(path), "term-to-map", d2})
				} else if isItemTerm(key) {
					m[key] = []any{v}
					out = append(out, c05Mutation{"wrap " + pstr(path), "wrap-scalar", d})
				}
			}
		case map[string]any:
			if id, ok := v["id"].(string); ok && isItemTerm(key) {
				m[key] = id
				out = append(out, c05Mutation{"object->id " + pstr(path), "object-to-id", d})
			} else if isItemTerm(key) {
				m[key] = []any{v}
				out = append(out, c05Mutation{"wrap " + pstr(path), "wrap-object", d})
			}
		}
	}
	return out
}

var c05ItemTerms map[string]bool

func isItemTerm(term string) bool {
	if c05ItemTerms == nil {
		c05ItemTerms = map[string]bool{}
		for i := range universe.Structs {
			for _, f := range universe.Structs[i].ItemFields() {
				c05ItemTerms[f.Term] = true
			}
		}
	}
	return c05ItemTerms[term]
}
