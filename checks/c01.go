package checks

import (
	"encoding/json"
	"fmt"
	"reflect"
	"strings"
	"time"

	ap "github.com/go-ap/activitypub"

	"verif/internal/canon"
	"verif/internal/engine"
	"verif/internal/universe"
)

// C01 — JSON encode->decode round trip preserves every vocabulary property (DESIGN.md §3 C01).

func init() {
	engine.Register(&engine.Check{
		ID: "C01", Name: "json-rt", Level: "model_checking",
		Rule: "value universe derived by reflection from the live structs: level 0 (bare values, every type name), level 1 (every type x field x shape), " +
			"saturated, level 2 (thorough: every field pair x q-shape pair), nesting depth 2 (every item position x embedded level-1 value; quick: q shapes) and depth 3 (thorough, q); " +
			"each through the package entry pair and the method entry pair; a case is distinct by its canonical tree, non-trivial when at least one property beyond id/type is set",
		Assumptions: []string{"reflection-based canon with normal forms N1-N6 is the oracle (DESIGN.md §1.3)", "small-scope hypothesis: codecs treat properties independently and recurse uniformly"},
		Bound: func(tier string) string {
			if tier == "thorough" {
				return "levels 0,1,2,saturated; depth 2 over all shapes; depth 3 over q shapes on 4 hosts; plus the scale dimension: boundary-length strings (a 2/3/4-byte rune, quote or LF at every offset B-4..B+1 for B in 64,256,512,1024,4096) in 11 string positions, lists of 17/33/65 members, integers above 2^53, 7-decimal and tiny floats, instants at/before the epoch; an empty-but-non-nil neighbour next to every property; one identity in every pair of item properties; every decode is followed by two unrelated decodes before the comparison; IRI forms (IPv6 literals, explicit default ports, userinfo, non-ASCII path and host, upper-case scheme, empty fragment / query, percent-encoding in both cases) in every IRI-bearing position; generic type names; list forms (pointer to a list, lists of one, *IRIs, windows of one backing array); language tags with subtags / singletons / private use, untagged+tagged lists; families added after round 5: DESIGN.md 8.11"
			}
			return "levels 0,1,saturated; depth 2 over q shapes at every item position; plus the scale dimension: boundary-length strings (a 2/3/4-byte rune, quote or LF at every offset B-4..B+1 for B in 64,256,512,1024,4096) in 11 string positions, lists of 17/33/65 members, integers above 2^53, 7-decimal and tiny floats, instants at/before the epoch; an empty-but-non-nil neighbour next to every property; one identity in every pair of item properties; every decode is followed by two unrelated decodes before the comparison; IRI forms (IPv6 literals, explicit default ports, userinfo, non-ASCII path and host, upper-case scheme, empty fragment / query, percent-encoding in both cases) in every IRI-bearing position; generic type names; list forms (pointer to a list, lists of one, *IRIs, windows of one backing array); language tags with subtags / singletons / private use, untagged+tagged lists; families added after round 5: DESIGN.md 8.11"
		},
		DeadlineQuick: 6 * time.Minute, DeadlineThorough: 45 * time.Minute,
		Run: c01Run,
	})
}

func c01Case(c *engine.Ctx, r universe.Recipe, entry string) {
	class := "C01|json-rt|" + r.Struct.Name
	c.Do(class, func() string { return entry + " round trip of " + r.String() }, func(t *engine.T) {
		x := r.Build()
		want := canon.Of(x, canon.JSON)
		t.State(engine.Hash64(entry, want.String()), len(r.Sets) > 0)
		b, err := jsonEncode(entry, x)
		t.Ops(1)
		if err != nil || len(b) == 0 {
			t.Outcome("encode-empty-or-error")
			if want != nil {
				t.Fail(class+"|*|whole-value|encode-failed", "encoder returned %d bytes, err=%v for a non-empty value %s", len(b), err, want)
			}
			return
		}
		y, err := jsonDecode(entry, r.Struct.Type, b)
		t.Ops(1)
		if err != nil {
			t.Outcome("decode-error")
			t.Fail(class+"|*|whole-value|decode-error", "decoder rejected the library's own output: %v\n%s", err, b)
			return
		}
		got := canon.Of(y, canon.JSON)
		if gt := structNameOf(y); gt != r.Struct.Name {
			t.Fail(fmt.Sprintf("%s|*|top|type-changed:%s->%s", class, r.Struct.Name, gt), "decoded value is a %T\njson: %s", y, b)
		}
		ds := canon.Diff(want, got)
		if len(ds) == 0 {
			// language lists come back in the order they were stored (lists of two or more entries are sent round 8 times:
			// an order that depends on Go's map iteration differs only now and then)
			if canon.HasMultiLang(want) {
				for round := 0; round < 8; round++ {
					if round > 0 {
						b, _ = jsonEncode(entry, x)
						y, err = jsonDecode(entry, r.Struct.Type, b)
						if err != nil {
							break
						}
						got = canon.Of(y, canon.JSON)
					}
					if where := canon.OrderDiff(want, got); where != "" {
						t.Fail("C01|json-rt|"+r.Struct.Name+"|"+canon.LastTerm(where)+"|lang-order-changed", "the entries of %s came back in another order (round %d) via %s entry\njson: %s", where, round, entry, b)
						break
					}
				}
			}
			t.Outcome("round-trips")
			return
		}
		t.Outcome("differs")
		for _, d := range ds {
			if d.Path == "" && d.Symptom[:4] == "type" {
				continue // reported above
			}
			t.Fail("C01|json-rt|"+deltaKey(r.Struct.Name, d), "%s via %s entry\njson: %s", d, entry, b)
		}
	})
}

func c01Run(c *engine.Ctx) {
	entries := []string{"pkg", "method"}
	both := func(r universe.Recipe) {
		for _, e := range entries {
			if e == "pkg" && r.TypeName == "" && r.Struct.Name != "Object" {
				continue // a type-less value can only be read back through its own type's method
			}
			c01Case(c, r, e)
		}
	}
	for i := range universe.Structs {
		s := &universe.Structs[i]
		universe.Level0(s, both)
		universe.Level1(s, universe.JSON, false, both)
		universe.Saturated(s, universe.JSON, both)
	}
	// type-less level-1 values through the method pair
	for i := range universe.Structs {
		s := &universe.Structs[i]
		universe.Level1(s, universe.JSON, true, func(r universe.Recipe) {
			r.TypeName = ""
			c01Case(c, r, "method")
		})
	}
	// nesting depth 2: every item position x every embedded level-1 value
	var emb []universe.Shape
	universe.Depth2Embedded(universe.JSON, c.Quick(), func(sh universe.Shape) { emb = append(emb, sh) })
	for i := range universe.Structs {
		s := &universe.Structs[i]
		for _, f := range s.ItemFields() {
			for _, sh := range emb {
				r := universe.Recipe{Struct: s, TypeName: s.SpecificName(), Sets: []universe.Set{{Field: f, Shape: universe.WrapForField(f, sh)}}}
				c01Case(c, r, "pkg")
			}
		}
	}
	c01Scalars(c)
	// boundary-length strings, empty-but-non-nil neighbours, one identity in two properties
	universe.Scale(func(r universe.Recipe) { c01Case(c, r, "method") })
	// presentations of IRIs, generic type names, list forms
	universe.IRIPresentations(func(r universe.Recipe) { c01Case(c, r, "pkg") })
	moreFamilies(universe.JSON, func(r universe.Recipe) { c01Case(c, r, "pkg") })
	for i := range universe.Structs {
		s := &universe.Structs[i]
		universe.GenericNames(s, universe.JSON, both)
		universe.ListForms(s, both)
	}
	for i := range universe.Structs {
		s := &universe.Structs[i]
		universe.Degenerate(s, universe.JSON, func(r universe.Recipe) { c01Case(c, r, "method") })
		universe.SharedIdentity(s, func(r universe.Recipe) { c01Case(c, r, "pkg") })
	}
	if c.Quick() {
		return
	}
	for i := range universe.Structs {
		universe.Level2(&universe.Structs[i], universe.JSON, both)
	}
	// depth 3 over q shapes on four hosts
	var embQ []universe.Shape
	universe.Depth2Embedded(universe.JSON, true, func(sh universe.Shape) { embQ = append(embQ, sh) })
	hosts := []struct{ s, f string }{{"Object", "Attachment"}, {"Object", "Tag"}, {"Activity", "Object"}, {"OrderedCollection", "OrderedItems"}}
	for _, h := range hosts {
		hs := universe.ByName(h.s)
		hf := *hs.Field(h.f)
		for i := range universe.Structs {
			mid := &universe.Structs[i]
			for _, mf := range mid.ItemFields() {
				for _, leaf := range embQ {
					midR := universe.Recipe{Struct: mid, TypeName: mid.SpecificName(), Sets: []universe.Set{{Field: mf, Shape: universe.WrapForField(mf, leaf)}}}
					r := universe.Recipe{Struct: hs, TypeName: hs.SpecificName(), Sets: []universe.Set{{Field: hf, Shape: universe.WrapForField(hf, universe.NestedShape(midR))}}}
					c01Case(c, r, "method")
				}
			}
		}
	}
}

// c01Scalars round-trips the types that are not items through their own MarshalJSON / UnmarshalJSON pair.
func c01Scalars(c *engine.Ctx) {
	type sc struct {
		name string
		mk   func() any
		zero func() any
	}
	var cases []sc
	add := func(name string, mk func() any, zero func() any) { cases = append(cases, sc{name, mk, zero}) }
	for i := range universe.Nested {
		s := &universe.Nested[i]
		for _, f := range s.Fields {
			for _, sh := range universe.ShapesFor(f, universe.JSON, false) {
				r := universe.Recipe{Struct: s, Value: true, Sets: []universe.Set{{Field: f, Shape: sh}}}
				add(r.String(), func() any { return r.Build() }, func() any { return reflect.New(s.Type).Interface() })
			}
		}
		var all []universe.Set
		for _, f := range s.Fields {
			if sh := universe.ShapesFor(f, universe.JSON, true); len(sh) > 0 {
				all = append(all, universe.Set{Field: f, Shape: sh[0]})
			}
		}
		r := universe.Recipe{Struct: s, Value: true, Sets: all}
		add(r.String()+"(all)", func() any { return r.Build() }, func() any { return reflect.New(s.Type).Interface() })
	}
	for _, sh := range universe.Shapes(universe.KNLV) {
		sh := sh
		if sh.NoJSON || sh.GobOnly {
			continue
		}
		add("NaturalLanguageValues "+sh.Name, func() any { return sh.Build(&universe.Gen{}).Interface() }, func() any { return new(ap.NaturalLanguageValues) })
	}
	add("IRIs[3]", func() any { g := &universe.Gen{}; return ap.IRIs{g.IRI(), g.IRI(), g.IRI()} }, func() any { return new(ap.IRIs) })
	add("IRIs[1]", func() any { g := &universe.Gen{}; return ap.IRIs{g.IRI()} }, func() any { return new(ap.IRIs) })
	add("IRI", func() any { return (&universe.Gen{}).IRI() }, func() any { return new(ap.IRI) })
	add("MimeType", func() any { return ap.MimeType("text/html; charset=utf-8") }, func() any { return new(ap.MimeType) })
	for _, form := range universe.StringForms {
		form := form
		add("MimeType "+form, func() any { return ap.MimeType(form) }, func() any { return new(ap.MimeType) })
	}
	for _, sh := range universe.ItemsShapes() {
		sh := sh
		add("ItemCollection "+sh.Name, func() any { return sh.Build(&universe.Gen{}).Interface() }, nil)
	}
	for _, k := range cases {
		k := k
		class := "C01|json-rt-scalar|" + strings.Fields(k.name)[0]
		c.Do(class, func() string { return "MarshalJSON/UnmarshalJSON method pair of " + k.name }, func(t *engine.T) {
			x := k.mk()
			want := canon.Of(x, canon.JSON)
			t.State(engine.Hash64("scalar", k.name, want.String()), true)
			m, ok := x.(json.Marshaler)
			if !ok {
				t.Fail(class+"|no-marshaler", "%T has no MarshalJSON", x)
				return
			}
			b, err := m.MarshalJSON()
			t.Ops(1)
			if err != nil || len(b) == 0 {
				t.Fail(class+"|encode-failed", "MarshalJSON: %d bytes, %v for %s", len(b), err, want)
				return
			}
			var got *canon.Node
			if k.zero == nil {
				// an item list has no UnmarshalJSON of its own: it is read back by the package function
				it, err := ap.UnmarshalJSON(b)
				if err != nil {
					t.Fail(class+"|decode-error", "%v\njson: %s", err, b)
					return
				}
				got = canon.Of(it, canon.JSON)
				if want != nil && want.K == "list" && len(want.L) == 1 {
					want = want.L[0] // a one-element list is written as its element
				}
			} else {
				z := k.zero()
				if err := z.(json.Unmarshaler).UnmarshalJSON(b); err != nil {
					t.Fail(class+"|decode-error", "%v\njson: %s", err, b)
					return
				}
				got = canon.Of(z, canon.JSON)
			}
			t.Ops(1)
			for _, d := range canon.Diff(want, got) {
				t.Fail("C01|json-rt-scalar|"+deltaKey(strings.Fields(k.name)[0], d), "%s\njson: %s", d, b)
			}
		})
	}
}
