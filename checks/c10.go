package checks

import (
	"fmt"
	"reflect"
	"strings"

	ap "github.com/go-ap/activitypub"

	"verif/internal/engine"
	"verif/internal/universe"
)

// C10 — recipient computation de-duplicates without losing or inventing addressees (DESIGN.md §3 C10).
//
// A history is an assignment of addressee entries to the slots to, cc, bto, bcc, audience (+ actor for intransitive
// activities and questions, + object for a Block), one Recipients() call and a second one (idempotence). Every assignment
// with at most `bound` entries in total is executed on a fresh real value of every type that has Recipients() and compared
// with a reference model over (identity, presentation).

type c10Entry struct {
	name string
	id   int // identity index, -1 = nil entry
	mk   func() ap.Item
}

const (
	c10A = "http://example.com/a"
	c10B = "http://example.com/b"
)

func c10Entries(thorough bool) []c10Entry {
	es := []c10Entry{
		{"a:iri", 0, func() ap.Item { return ap.IRI(c10A) }},
		{"a:https", 0, func() ap.Item { return ap.IRI("https://example.com/a") }},
		{"a:HOST", 0, func() ap.Item { return ap.IRI("http://EXAMPLE.com/a") }},
		{"a:slash", 0, func() ap.Item { return ap.IRI(c10A + "/") }},
		{"a:*Actor", 0, func() ap.Item { return &ap.Actor{ID: c10A, Type: ap.PersonType} }},
		{"b:*Object", 1, func() ap.Item { return &ap.Object{ID: c10B, Type: ap.NoteType} }},
		{"b:iri", 1, func() ap.Item { return ap.IRI(c10B) }},
		{"nil", -1, func() ap.Item { return nil }},
	}
	if thorough {
		es = append(es,
			c10Entry{"public", 2, func() ap.Item { return ap.PublicNS }},
			c10Entry{"a:Actor-value", 0, func() ap.Item { return ap.Actor{ID: c10A, Type: ap.GroupType} }},
		)
	}
	return es
}

var c10IDs = []string{c10A, c10B, string(ap.PublicNS)}

// c10ID names identity i: the three fixed ones, then as many further addressees as a long list needs.
var c10Named = map[int]string{} // identities with a given spelling (index >= 1000)

func c10ID(i int) string {
	if s, ok := c10Named[i]; ok {
		return s
	}
	if i < len(c10IDs) {
		return c10IDs[i]
	}
	return fmt.Sprintf("http://example.com/n/%d", i)
}

// c10Slots in scan order; "actor" only exists for intransitive activities and questions.
var c10ListSlots = []string{"To", "CC", "Bto", "BCC", "Audience"}

type c10Host struct {
	name     string
	st       *universe.Struct
	typ      string
	actor    bool // has the actor slot in the scan
	block    bool
	itemColl bool
}

func c10Hosts() []c10Host {
	var hs []c10Host
	for i := range universe.Structs {
		s := &universe.Structs[i]
		if s.Name == "Link" {
			continue
		}
		h := c10Host{name: s.Name, st: s, typ: s.SpecificName()}
		if s.Name == "IntransitiveActivity" || s.Name == "Question" {
			h.actor = true
		}
		hs = append(hs, h)
		if s.Name == "Activity" {
			hs = append(hs, c10Host{name: "Activity(Block)", st: s, typ: "Block", block: true})
		}
	}
	return hs
}

type c10Assign struct {
	lists  [5][]int // entry indices per list slot
	actor  int      // -1 unset
	object int      // -1 unset (Block only)
}

func (a c10Assign) str(es []c10Entry) string {
	var b strings.Builder
	for i, s := range c10ListSlots {
		if len(a.lists[i]) == 0 {
			continue
		}
		fmt.Fprintf(&b, "%s=[", strings.ToLower(s))
		for k, e := range a.lists[i] {
			if k > 0 {
				b.WriteByte(',')
			}
			b.WriteString(es[e].name)
		}
		b.WriteString("] ")
	}
	if a.actor >= 0 {
		fmt.Fprintf(&b, "actor=%s ", es[a.actor].name)
	}
	if a.object >= 0 {
		fmt.Fprintf(&b, "object=%s ", es[a.object].name)
	}
	return strings.TrimSpace(b.String())
}

// c10Enumerate yields every assignment of at most bound entries to the five lists.
func c10Enumerate(nEntries, bound int, fn func(lists [5][]int)) {
	var lists [5][]int
	var rec func(slot, left int)
	rec = func(slot, left int) {
		if slot == 5 {
			fn(lists)
			return
		}
		var fill func(n int)
		fill = func(n int) {
			rec(slot+1, left-len(lists[slot]))
			if len(lists[slot]) >= n {
				return
			}
			for e := 0; e < nEntries; e++ {
				lists[slot] = append(lists[slot], e)
				fill(n)
				lists[slot] = lists[slot][:len(lists[slot])-1]
			}
		}
		fill(left)
	}
	rec(0, bound)
}

func c10Describe(it ap.Item) string {
	if it == nil {
		return "<nil>"
	}
	return fmt.Sprintf("%T(%s)", it, it.GetLink())
}

func c10DescribeList(l ap.ItemCollection) string {
	s := make([]string, len(l))
	for i, it := range l {
		s[i] = c10Describe(it)
	}
	return "[" + strings.Join(s, " ") + "]"
}

type c10Model struct {
	ret   []int    // identity sequence
	lists [4][]int // surviving entry indices of to, cc, bto, bcc
}

func c10Reference(es []c10Entry, h c10Host, a c10Assign) c10Model {
	lists := a.lists
	if h.block && a.object >= 0 {
		blocked := es[a.object].id
		for i := range lists {
			var keep []int
			for _, e := range lists[i] {
				if es[e].id == -1 || es[e].id != blocked {
					keep = append(keep, e)
				}
			}
			lists[i] = keep
		}
	}
	var m c10Model
	seen := map[int]bool{}
	visit := func(l []int) []int {
		var keep []int
		for _, e := range l {
			id := es[e].id
			if id == -1 {
				keep = append(keep, e)
				continue
			}
			if seen[id] {
				continue
			}
			seen[id] = true
			m.ret = append(m.ret, id)
			keep = append(keep, e)
		}
		return keep
	}
	for i := 0; i < 4; i++ {
		m.lists[i] = visit(lists[i])
	}
	if h.actor && a.actor >= 0 {
		visit([]int{a.actor})
	}
	visit(lists[4])
	return m
}

func c10Build(es []c10Entry, h c10Host, a c10Assign) any {
	p := reflect.New(h.st.Type)
	e := p.Elem()
	e.FieldByName("ID").Set(reflect.ValueOf(ap.IRI("https://example.com/host")))
	e.FieldByName("Type").Set(reflect.ValueOf(ap.ActivityVocabularyType(h.typ)))
	for i, s := range c10ListSlots {
		if len(a.lists[i]) == 0 {
			continue
		}
		col := make(ap.ItemCollection, 0, len(a.lists[i]))
		for _, x := range a.lists[i] {
			col = append(col, es[x].mk())
		}
		e.FieldByName(s).Set(reflect.ValueOf(col))
	}
	if a.actor >= 0 {
		f := e.FieldByName("Actor")
		f.Set(reflect.ValueOf(es[a.actor].mk()).Convert(f.Type()))
	}
	if a.object >= 0 {
		e.FieldByName("Object").Set(reflect.ValueOf(es[a.object].mk()))
	}
	return p.Interface()
}

func c10Check(t *engine.T, es []c10Entry, h c10Host, a c10Assign) {
	v := c10Build(es, h, a)
	hr, ok := v.(ap.HasRecipients)
	if !ok {
		t.Fail("C10|"+h.name+"|no-recipients-method", "%T does not implement HasRecipients", v)
		return
	}
	m := c10Reference(es, h, a)
	key := func(sym string) string { return "C10|" + h.name + "|" + sym }
	for call := 1; call <= 2; call++ {
		ret := hr.Recipients()
		t.Ops(1)
		// returned list: identity sequence, each an IRI equivalent to the identity
		ok := len(ret) == len(m.ret)
		for i := 0; ok && i < len(ret); i++ {
			if ret[i] == nil || !ret[i].GetLink().Equals(ap.IRI(c10ID(m.ret[i])), false) {
				ok = false
			}
		}
		if !ok {
			want := make([]string, len(m.ret))
			for i, id := range m.ret {
				want[i] = c10ID(id)
			}
			sym := "returned-list"
			if call == 2 {
				sym = "second-call-returned-list"
			}
			t.Fail(key(sym), "call %d returned %s, expected one entry per distinct addressee in first-mention order: %v", call, c10DescribeList(ret), want)
		}
		e := reflect.ValueOf(v).Elem()
		for i := 0; i < 4; i++ {
			got := e.FieldByName(c10ListSlots[i]).Interface().(ap.ItemCollection)
			want := make([]string, len(m.lists[i]))
			for k, x := range m.lists[i] {
				want[k] = c10Describe(es[x].mk())
			}
			gs := make([]string, len(got))
			for k, it := range got {
				gs[k] = c10Describe(it)
			}
			if strings.Join(gs, " ") != strings.Join(want, " ") {
				sym := "list-after"
				if call == 2 {
					sym = "second-call-list-after"
				}
				t.Fail(key(sym+"|"+strings.ToLower(c10ListSlots[i])), "after call %d %s = %v, expected %v (first mention kept, order kept, nil entries left alone)", call, strings.ToLower(c10ListSlots[i]), gs, want)
			}
		}
		if h.block && a.object >= 0 {
			blocked := ap.IRI(c10ID(es[a.object].id))
			for _, s := range c10ListSlots {
				for _, it := range e.FieldByName(s).Interface().(ap.ItemCollection) {
					if it != nil && it.GetLink().Equals(blocked, false) {
						t.Fail(key("blocked-object-still-addressed|"+strings.ToLower(s)), "%s still mentions the blocked object %s", strings.ToLower(s), blocked)
					}
				}
			}
		}
	}
}

func init() {
	engine.Register(&engine.Check{
		ID: "C10", Name: "recipients", Level: "model_checking",
		Rule: "every assignment of at most k addressee entries (presentations of identities a, b, public: IRI, https variant, upper-case host, trailing slash, embedded *Actor/*Object/Actor value; nil) " +
			"to to/cc/bto/bcc/audience (+actor for intransitive activities/questions, +object for Block) on a fresh value of every type with Recipients(), followed by two Recipients() calls, " +
			"compared with a reference model over (identity, presentation); plus ItemCollection.Recipients over two members; non-trivial = at least two entries",
		Assumptions: []string{"reading D5: only the returned list and to/cc/bto/bcc are judged", "IRI equivalence on this alphabet is an equivalence relation (C14)"},
		Bound: func(tier string) string {
			if tier == "thorough" {
				return "k <= 4 entries over 10 presentations and over 4 spellings of a host root + 2 of another addressee, k <= 5 over the 6 presentations of the quick tier, 14 host types (+Block); to-lists of 15..129 distinct addressees with one repeat at the end / at index 1 / in cc / in bcc; families added after round 5: DESIGN.md 8.11"
			}
			return "k <= 4 entries over 6 presentations (a:iri, a:https, a:*Actor, b:iri, public, nil) and over 4 spellings of a host root + 2 of another addressee, 14 host types (+Block); every to / cc list of 5..7 entries over 4 presentations of 3 addressees (Object; 5..6: Activity, Question); to-lists of 15..129 distinct addressees with one repeat at the end / at index 1 / in cc / in bcc; families added after round 5: DESIGN.md 8.11"
		},
		Run: c10Run,
	})
}

func c10Run(c *engine.Ctx) {
	es := c10Entries(true)
	bound := 4
	if c.Quick() {
		// quick: up to 4 entries (a removed duplicate followed by two survivors needs 4) over six presentations
		es = []c10Entry{es[0], es[1], es[4], es[6], es[8], es[7]}
	}
	c10Small(c, es, bound, c.Quick())
	if !c.Quick() {
		// thorough: one entry more over the six presentations of the quick tier (only assignments of exactly 5 entries are new)
		all := c10Entries(true)
		c10Small(c, []c10Entry{all[0], all[1], all[4], all[6], all[8], all[7]}, 5, true)
	}
	c10Long(c, es)
	// one addressee in FOUR presentations that are equivalent only after parsing and cleaning (the root of a host written with
	// no path, "/", "/." and "/x/.."), next to a different one: de-duplication that compares neighbours with a relation that
	// is not transitive on these removes the wrong entry (found as a genuine defect, fixed in a93b404)
	// every `to` list (and every `cc` list behind to=[a]) of 5..7 entries over {a:iri, a:*Actor, b:iri, c:iri}: several repetitions, runs
	// of them, survivors before, between and after them - what a compaction in place can get wrong
	{
		deep := []c10Entry{
			{"a:iri", 0, func() ap.Item { return ap.IRI(c10A) }},
			{"a:*Actor", 0, func() ap.Item { return &ap.Actor{ID: c10A, Type: ap.PersonType} }},
			{"b:iri", 1, func() ap.Item { return ap.IRI(c10B) }},
			{"c:iri", 3, func() ap.Item { return ap.IRI(c10ID(3)) }},
		}
		for _, h := range c10Hosts() {
			if h.block || (h.name != "Object" && h.name != "Activity" && h.name != "Question") {
				continue
			}
			h := h
			var rec func(cur []int)
			rec = func(cur []int) {
				if len(cur) >= 5 {
					seq := append([]int{}, cur...)
					for _, slot := range []int{0, 1} {
						slot := slot
						a := c10Assign{actor: -1, object: -1}
						a.lists[slot] = seq
						if slot == 1 {
							a.lists[0] = []int{0}
						}
						c.Do("C10|"+h.name, func() string { return h.name + ": " + a.str(deep) + " ; Recipients() twice" }, func(t *engine.T) {
							t.Distinct(true)
							c10Check(t, deep, h, a)
						})
					}
				}
				if len(cur) == 7 || len(cur) == 6 && h.name != "Object" {
					return
				}
				for x := range deep {
					rec(append(append([]int{}, cur...), x))
				}
			}
			rec(nil)
		}
	}
	// presentations of a that need BOTH stages of the comparison (letter case of the path and a trailing slash / another scheme), and
	// embedded presentations that are not copies of one another (another struct, type, scheme, an extra property): addressees and
	// the blocked object are matched by identity, not by structure
	c10Small(c, []c10Entry{
		{"a:iri", 0, func() ap.Item { return ap.IRI(c10A) }},
		{"a:CASE+slash", 0, func() ap.Item { return ap.IRI("https://EXAMPLE.com/A/") }},
		{"a:*Object-https", 0, func() ap.Item {
			return &ap.Object{ID: "https://example.com/a", Type: ap.NoteType, Name: ap.NaturalLanguageValues{{Ref: "-", Value: ap.Content("extra")}}}
		}},
		{"b:iri", 1, func() ap.Item { return ap.IRI(c10B) }},
		{"a:*Actor", 0, func() ap.Item { return &ap.Actor{ID: c10A, Type: ap.PersonType} }},
		{"a:*Object-bare", 0, func() ap.Item { return &ap.Object{ID: c10A} }},
	}, 3, true)
	c10Named[900], c10Named[901] = "http://example.org", "http://example.net/d"
	root := []c10Entry{
		{"r:none", 900, func() ap.Item { return ap.IRI("http://example.org") }},
		{"r:slash", 900, func() ap.Item { return ap.IRI("http://example.org/") }},
		{"r:dot", 900, func() ap.Item { return ap.IRI("https://EXAMPLE.org/.") }},
		{"r:dotdot", 900, func() ap.Item { return ap.IRI("http://example.org/x/..") }},
		{"d:iri", 901, func() ap.Item { return ap.IRI("http://example.net/d") }},
		{"d:*Object", 901, func() ap.Item { return &ap.Object{ID: "http://example.net/d", Type: ap.NoteType} }},
	}
	c10Small(c, root, 4, true)
}

// c10Small: every assignment of at most `bound` entries of es to the five lists (and actor / blocked object) on every host.
func c10Small(c *engine.Ctx, es []c10Entry, bound int, sixPresentations bool) {
	// further presentations of identity a, used as the object of a Block only (not enumerated as addressees): embedded
	// collections that carry the id a and have members of their own
	nEnum := len(es)
	member := func() ap.Item { return &ap.Object{ID: c10B, Type: ap.NoteType} }
	es = append(append([]c10Entry{}, es...),
		c10Entry{"a:*Collection", 0, func() ap.Item {
			return &ap.Collection{ID: c10A, Type: ap.CollectionType, TotalItems: 1, Items: ap.ItemCollection{member()}}
		}},
		c10Entry{"a:*OrderedCollection", 0, func() ap.Item {
			return &ap.OrderedCollection{ID: c10A, Type: ap.OrderedCollectionType, OrderedItems: ap.ItemCollection{member(), ap.IRI("https://example.com/other")}}
		}},
		c10Entry{"a:*CollectionPage", 0, func() ap.Item {
			return &ap.CollectionPage{ID: c10A, Type: ap.CollectionPageType, Items: ap.ItemCollection{member()}}
		}},
		c10Entry{"a:Collection-value", 0, func() ap.Item {
			return ap.Collection{ID: c10A, Type: ap.CollectionType, Items: ap.ItemCollection{member()}}
		}},
	)
	nonNil := []int{}
	for i, e := range es[:nEnum] {
		if e.id >= 0 {
			nonNil = append(nonNil, i)
		}
	}
	for _, h := range c10Hosts() {
		h := h
		extra := []c10Assign{{actor: -1, object: -1}}
		b := bound
		if h.actor {
			for _, x := range nonNil {
				extra = append(extra, c10Assign{actor: x, object: -1})
			}
		}
		if h.block {
			extra = nil
			blockObjs := []int{0, 4, 6} // a:iri, a:*Actor, b:iri
			if sixPresentations {
				blockObjs = []int{0, 2, 3}
			}
			blockObjs = append(blockObjs, nEnum, nEnum+1, nEnum+2, nEnum+3)
			for _, x := range blockObjs {
				extra = append(extra, c10Assign{actor: -1, object: x})
			}
			b = bound - 1
		}
		for _, ex := range extra {
			ex := ex
			bb := b
			if ex.actor >= 0 {
				bb = b - 1
			}
			// one case per first-slot content to keep case descriptions small: enumerate everything, group by `to`
			c10Enumerate(nEnum, bb, func(lists [5][]int) {
				a := ex
				for i := range lists {
					a.lists[i] = append([]int(nil), lists[i]...)
				}
				n := 0
				for i := range a.lists {
					n += len(a.lists[i])
				}
				c.Do("C10|"+h.name, func() string { return h.name + ": " + a.str(es) + " ; Recipients() twice" }, func(t *engine.T) {
					t.Distinct(n >= 2)
					c10Check(t, es, h, a)
				})
			})
		}
	}
}

// c10NearPairs: two DIFFERENT addressees whose ids are easy to confuse - they differ in one letter that a careless case mapping
// identifies (U+0130 vs i), only inside an IPv6 literal, or they collide under a common 32-bit hash. Both must be kept, in every
// arrangement over to / cc / bcc, and a real repeat of either must still go.
func c10NearPairs(c *engine.Ctx) {
	pairs := [][2]string{{"https://example.com/~\u0130nci", "https://example.com/~inci"}, {"https://example.com/~\u0131d", "https://example.com/~Id"},
		{"https://[2001:db8::1]/u", "https://[2001:db8::2]/u"}, {"https://example.com/u?next=/a/", "https://example.com/u?next=/a"}, {"https://example.com/u?a%3Db=c", "https://example.com/u?a=b%3Dc"}}
	for _, p := range universe.CollidingIDs() {
		pairs = append(pairs, [2]string{string(p[0]), string(p[1])})
	}
	for k, p := range pairs {
		c10Named[1000+2*k], c10Named[1001+2*k] = p[0], p[1]
	}
	for _, h := range c10Hosts() {
		if h.block {
			continue
		}
		h := h
		for k := range pairs {
			ia, ib := 1000+2*k, 1001+2*k
			les := []c10Entry{
				{"x:iri", ia, func() ap.Item { return ap.IRI(c10ID(ia)) }},
				{"y:iri", ib, func() ap.Item { return ap.IRI(c10ID(ib)) }},
				{"y:*Actor", ib, func() ap.Item { return &ap.Actor{ID: ap.IRI(c10ID(ib)), Type: ap.PersonType} }},
			}
			for _, arr := range [][3][]int{{{0, 1}, nil, nil}, {{1, 0}, nil, nil}, {{0}, {1}, nil}, {{0, 2}, {1}, {0}}, {{1}, nil, {0, 1}}, {{0, 1, 0, 1}, nil, nil}} {
				arr := arr
				k := k
				c.Do("C10|"+h.name, func() string {
					return fmt.Sprintf("%s: two easily confused but different addressees (%q, %q) as to=%v cc=%v bcc=%v ; Recipients() twice", h.name, pairs[k][0], pairs[k][1], arr[0], arr[1], arr[2])
				}, func(t *engine.T) {
					t.Distinct(true)
					a := c10Assign{actor: -1, object: -1}
					a.lists[0], a.lists[1], a.lists[3] = arr[0], arr[1], arr[2]
					c10Check(t, les, h, a)
				})
			}
		}
	}
}

// c10Long: long lists and ItemCollection.Recipients.
func c10Long(c *engine.Ctx, es []c10Entry) {
	c10NearPairs(c)
	// long lists: N distinct addressees in `to` plus one repeat, at list indices around 64 and 128
	for _, h := range c10Hosts() {
		h := h
		for _, N := range []int{15, 16, 17, 31, 32, 33, 62, 63, 64, 65, 66, 127, 128, 129} {
			les := append([]c10Entry{}, es...)
			base := len(les)
			for i := 0; i < N; i++ {
				id := 3 + i
				les = append(les, c10Entry{fmt.Sprintf("n%d", id), id, func() ap.Item { return ap.IRI(c10ID(id)) }})
			}
			seq := make([]int, N)
			for i := range seq {
				seq[i] = base + i
			}
			ins := func(l []int, at, e int) []int {
				out := append([]int{}, l[:at]...)
				out = append(out, e)
				return append(out, l[at:]...)
			}
			type lc struct {
				name string
				a    c10Assign
			}
			var lcs []lc
			mkA := func(to, cc, bcc []int) c10Assign {
				a := c10Assign{actor: -1, object: -1}
				a.lists[0], a.lists[1], a.lists[3] = to, cc, bcc
				return a
			}
			lcs = append(lcs,
				lc{"first repeated at the end", mkA(ins(seq, N, seq[0]), nil, nil)},
				lc{"last repeated at the end", mkA(ins(seq, N, seq[N-1]), nil, nil)},
				lc{"middle repeated at the end", mkA(ins(seq, N, seq[N/2]), nil, nil)},
				lc{"first repeated at index 1", mkA(ins(seq, 1, seq[0]), nil, nil)},
				lc{"last repeated as object at the end", mkA(ins(seq, N, 4), []int{seq[N-1]}, nil)},
				lc{"cc repeats the last of to", mkA(seq, []int{seq[N-1], 0}, nil)},
				lc{"bcc repeats to entirely", mkA(seq, nil, seq)},
				lc{"no repeat", mkA(seq, []int{0}, nil)},
			)
			if h.block {
				for i := range lcs {
					lcs[i].a.object = 0
				}
			}
			for _, k := range lcs {
				k := k
				c.Do("C10|"+h.name, func() string {
					return fmt.Sprintf("%s: to = %d distinct addressees, %s ; Recipients() twice", h.name, N, k.name)
				}, func(t *engine.T) {
					t.Distinct(true)
					c10Check(t, les, h, k.a)
				})
			}
		}
	}
	// ItemCollection.Recipients over two member objects with at most 2 entries each (to / cc / bcc only)
	small := []int{0, 1, 2, 3}
	if !c.Quick() {
		small = []int{0, 1, 4, 5, 6}
	}
	type mem struct{ to, cc, bcc []int }
	var mems []mem
	for _, x := range small {
		mems = append(mems, mem{to: []int{x}})
		for _, y := range small {
			mems = append(mems, mem{to: []int{x}, cc: []int{y}}, mem{to: []int{x, y}}, mem{to: []int{x}, bcc: []int{y}})
		}
	}
	mk := func(m mem, id string) *ap.Object {
		o := &ap.Object{ID: ap.IRI(id), Type: ap.NoteType}
		for _, x := range m.to {
			o.To = append(o.To, es[x].mk())
		}
		for _, x := range m.cc {
			o.CC = append(o.CC, es[x].mk())
		}
		for _, x := range m.bcc {
			o.BCC = append(o.BCC, es[x].mk())
		}
		return o
	}
	for _, m1 := range mems {
		for _, m2 := range mems {
			m1, m2 := m1, m2
			c.Do("C10|ItemCollection", func() string {
				return fmt.Sprintf("ItemCollection{obj%v, obj%v}.Recipients()", m1, m2)
			}, func(t *engine.T) {
				t.Distinct(true)
				col := ap.ItemCollection{mk(m1, "https://example.com/m1"), mk(m2, "https://example.com/m2")}
				ret := col.Recipients()
				t.Ops(1)
				var want []int
				seen := map[int]bool{}
				for _, m := range []mem{m1, m2} {
					for _, l := range [][]int{m.to, m.cc, nil, m.bcc} {
						for _, x := range l {
							if !seen[es[x].id] {
								seen[es[x].id] = true
								want = append(want, es[x].id)
							}
						}
					}
				}
				ok := len(ret) == len(want)
				for i := 0; ok && i < len(ret); i++ {
					if ret[i] == nil || !ret[i].GetLink().Equals(ap.IRI(c10ID(want[i])), false) {
						ok = false
					}
				}
				if !ok {
					t.Fail("C10|ItemCollection|returned-list", "returned %s, expected identities %v in first-mention order", c10DescribeList(ret), want)
				}
			})
		}
	}
}
