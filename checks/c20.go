package checks

import (
	"fmt"
	"go/ast"
	"go/parser"
	"go/token"
	"os"
	"path/filepath"
	"reflect"
	"sort"
	"strings"

	ap "github.com/go-ap/activitypub"

	"verif/internal/engine"
	"verif/internal/universe"
)

// C20 — nil and typed-nil items are handled as "nothing", never as a crash (DESIGN.md §3 C20).
//
// Complete matrix: helper x nil-kind (untyped nil + nil pointer of each of the 14 structs) x position
// (the argument itself; member of an ItemCollection; value of an item property of a valid Object / Activity / Collection).

type c20Result struct {
	cb     []any // pointers handed to callbacks
	checks []string
}

type c20Helper struct {
	name string
	// only: restrict positions ("top" only for helpers that do not traverse)
	run func(x ap.Item, r *c20Result)
	// expect judges the outcome at top position (optional)
	slots int
}

func c20cb[T any](r *c20Result) func(*T) error {
	return func(p *T) error { r.cb = append(r.cb, p); return nil }
}

func c20Valid() ap.Item {
	return &ap.Object{ID: "https://example.com/valid", Type: ap.NoteType, Name: ap.NaturalLanguageValues{{Ref: "-", Value: ap.Content("v")}}}
}

func c20Helpers() []c20Helper {
	must := func(r *c20Result, ok bool, what string) {
		if !ok {
			r.checks = append(r.checks, what)
		}
	}
	hs := []c20Helper{
		{name: "IsNil", run: func(x ap.Item, r *c20Result) { must(r, ap.IsNil(x), "IsNil is false") }},
		{name: "NotEmpty", run: func(x ap.Item, r *c20Result) { must(r, !ap.NotEmpty(x), "NotEmpty is true") }},
		{name: "IsObject", run: func(x ap.Item, r *c20Result) { ap.IsObject(x) }},
		{name: "IsLink", run: func(x ap.Item, r *c20Result) { ap.IsLink(x) }},
		{name: "IsIRI", run: func(x ap.Item, r *c20Result) { ap.IsIRI(x) }},
		{name: "IsIRIs", run: func(x ap.Item, r *c20Result) { ap.IsIRIs(x) }},
		{name: "IsItemCollection", run: func(x ap.Item, r *c20Result) { ap.IsItemCollection(x) }},
		{name: "ItemsEqual(x,x)", run: func(x ap.Item, r *c20Result) { must(r, ap.ItemsEqual(x, x), "ItemsEqual(x,x) is false") }},
		{name: "ItemsEqual(x,nil)", run: func(x ap.Item, r *c20Result) {
			must(r, ap.ItemsEqual(x, nil) && ap.ItemsEqual(nil, x), "not equal to the nil item")
		}},
		{name: "ItemsEqual(x,(*Object)(nil))", run: func(x ap.Item, r *c20Result) {
			must(r, ap.ItemsEqual(x, (*ap.Object)(nil)) && ap.ItemsEqual((*ap.Activity)(nil), x), "not equal to another typed nil")
		}},
		{name: "ItemsEqual(x,valid)", run: func(x ap.Item, r *c20Result) { must(r, !ap.ItemsEqual(x, c20Valid()), "equal to a non-nil object") }},
		{name: "ItemsEqual(valid,x)", run: func(x ap.Item, r *c20Result) {
			must(r, !ap.ItemsEqual(c20Valid(), x), "a non-nil object is equal to it")
		}},
		{name: "ItemsEqual(x,IRI)", run: func(x ap.Item, r *c20Result) {
			must(r, !ap.ItemsEqual(x, ap.IRI("https://example.com/i")) && !ap.ItemsEqual(ap.IRI("https://example.com/i"), x), "equal to a non-nil IRI")
		}},
		{name: "ItemsEqual([x],IRIs[1])", run: func(x ap.Item, r *c20Result) {
			// a list holding x against IRI lists of the same and of other lengths, both orders
			l := ap.ItemCollection{x}
			for _, iris := range []ap.Item{ap.IRIs{"https://example.com/i"}, &ap.IRIs{"https://example.com/i"}, ap.IRIs{}, ap.IRIs{"https://example.com/i", "https://example.com/j"}} {
				must(r, !ap.ItemsEqual(l, iris) || len(*mustIRIs(iris)) == 0, "a list holding it equals a list of IRIs")
				ap.ItemsEqual(iris, l)
				l.Equals(iris)
			}
			l2 := ap.ItemCollection{ap.IRI("https://example.com/i"), x}
			ap.ItemsEqual(l2, ap.IRIs{"https://example.com/i", "https://example.com/j"})
			l2.Equals(&ap.IRIs{"https://example.com/i", "https://example.com/j"})
		}},
		{name: "Endpoints{x}.MarshalJSON/GobEncode/inside an actor", run: func(x ap.Item, r *c20Result) {
			// x in every item field of the endpoints of an actor (a nested struct that is not itself an item)
			ep := &ap.Endpoints{OauthAuthorizationEndpoint: x, OauthTokenEndpoint: x, ProvideClientKey: x, SignClientKey: x, SharedInbox: x, UploadMedia: x}
			ep.MarshalJSON()
			ep.GobEncode()
			a := &ap.Actor{ID: "https://example.com/p", Type: ap.PersonType, Endpoints: ep, PublicKey: ap.PublicKey{ID: "https://example.com/k"}}
			a.MarshalJSON()
			ap.MarshalJSON(a)
			ap.GobEncode(a)
			ap.ItemsEqual(a, a)
			a.Clean()
			a.Recipients()
			ap.FlattenProperties(a)
			_ = fmt.Sprintf("%v %s", a, ep)
			ap.MarshalJSON(ap.ItemCollection{ap.IRI("https://example.com/i"), a})
		}},
		{name: "OnLink", run: func(x ap.Item, r *c20Result) { ap.OnLink(x, c20cb[ap.Link](r)) }},
		{name: "OnObject", run: func(x ap.Item, r *c20Result) { ap.OnObject(x, c20cb[ap.Object](r)) }},
		{name: "OnActivity", run: func(x ap.Item, r *c20Result) { ap.OnActivity(x, c20cb[ap.Activity](r)) }},
		{name: "OnIntransitiveActivity", run: func(x ap.Item, r *c20Result) { ap.OnIntransitiveActivity(x, c20cb[ap.IntransitiveActivity](r)) }},
		{name: "OnQuestion", run: func(x ap.Item, r *c20Result) { ap.OnQuestion(x, c20cb[ap.Question](r)) }},
		{name: "OnActor", run: func(x ap.Item, r *c20Result) { ap.OnActor(x, c20cb[ap.Actor](r)) }},
		{name: "OnItemCollection", run: func(x ap.Item, r *c20Result) { ap.OnItemCollection(x, c20cb[ap.ItemCollection](r)) }},
		{name: "OnIRIs", run: func(x ap.Item, r *c20Result) { ap.OnIRIs(x, c20cb[ap.IRIs](r)) }},
		{name: "OnCollectionIntf", run: func(x ap.Item, r *c20Result) {
			ap.OnCollectionIntf(x, func(c ap.CollectionInterface) error { r.cb = append(r.cb, c); return nil })
		}},
		{name: "OnCollection", run: func(x ap.Item, r *c20Result) { ap.OnCollection(x, c20cb[ap.Collection](r)) }},
		{name: "OnCollectionPage", run: func(x ap.Item, r *c20Result) { ap.OnCollectionPage(x, c20cb[ap.CollectionPage](r)) }},
		{name: "OnOrderedCollection", run: func(x ap.Item, r *c20Result) { ap.OnOrderedCollection(x, c20cb[ap.OrderedCollection](r)) }},
		{name: "OnOrderedCollectionPage", run: func(x ap.Item, r *c20Result) { ap.OnOrderedCollectionPage(x, c20cb[ap.OrderedCollectionPage](r)) }},
		{name: "OnPlace", run: func(x ap.Item, r *c20Result) {
			ap.OnPlace(x, func(p *ap.Place) error { r.cb = append(r.cb, p); return nil })
		}},
		{name: "OnProfile", run: func(x ap.Item, r *c20Result) {
			ap.OnProfile(x, func(p *ap.Profile) error { r.cb = append(r.cb, p); return nil })
		}},
		{name: "OnRelationship", run: func(x ap.Item, r *c20Result) {
			ap.OnRelationship(x, func(p *ap.Relationship) error { r.cb = append(r.cb, p); return nil })
		}},
		{name: "OnTombstone", run: func(x ap.Item, r *c20Result) {
			ap.OnTombstone(x, func(p *ap.Tombstone) error { r.cb = append(r.cb, p); return nil })
		}},
		{name: "OnItem", run: func(x ap.Item, r *c20Result) { ap.OnItem(x, func(ap.Item) error { return nil }) }},
		{name: "On[Object]", run: func(x ap.Item, r *c20Result) { ap.On[ap.Object](x, c20cb[ap.Object](r)) }},
		{name: "On[*Object]", run: func(x ap.Item, r *c20Result) { ap.On[*ap.Object](x, func(p **ap.Object) error { return nil }) }},
		{name: "To[Object]", run: func(x ap.Item, r *c20Result) { ap.To[ap.Object](x) }},
		{name: "To[*Activity]", run: func(x ap.Item, r *c20Result) { ap.To[*ap.Activity](x) }},
		{name: "ToLink", run: func(x ap.Item, r *c20Result) { p, _ := ap.ToLink(x); r.cb = append(r.cb, p) }},
		{name: "ToObject", run: func(x ap.Item, r *c20Result) { p, _ := ap.ToObject(x); r.cb = append(r.cb, p) }},
		{name: "ToActivity", run: func(x ap.Item, r *c20Result) { p, _ := ap.ToActivity(x); r.cb = append(r.cb, p) }},
		{name: "ToIntransitiveActivity", run: func(x ap.Item, r *c20Result) { p, _ := ap.ToIntransitiveActivity(x); r.cb = append(r.cb, p) }},
		{name: "ToQuestion", run: func(x ap.Item, r *c20Result) { p, _ := ap.ToQuestion(x); r.cb = append(r.cb, p) }},
		{name: "ToActor", run: func(x ap.Item, r *c20Result) { p, _ := ap.ToActor(x); r.cb = append(r.cb, p) }},
		{name: "ToItemCollection", run: func(x ap.Item, r *c20Result) { p, _ := ap.ToItemCollection(x); r.cb = append(r.cb, p) }},
		{name: "ToIRIs", run: func(x ap.Item, r *c20Result) { p, _ := ap.ToIRIs(x); r.cb = append(r.cb, p) }},
		{name: "ToCollection", run: func(x ap.Item, r *c20Result) { p, _ := ap.ToCollection(x); r.cb = append(r.cb, p) }},
		{name: "ToCollectionPage", run: func(x ap.Item, r *c20Result) { p, _ := ap.ToCollectionPage(x); r.cb = append(r.cb, p) }},
		{name: "ToOrderedCollection", run: func(x ap.Item, r *c20Result) { p, _ := ap.ToOrderedCollection(x); r.cb = append(r.cb, p) }},
		{name: "ToOrderedCollectionPage", run: func(x ap.Item, r *c20Result) { p, _ := ap.ToOrderedCollectionPage(x); r.cb = append(r.cb, p) }},
		{name: "ToPlace", run: func(x ap.Item, r *c20Result) { p, _ := ap.ToPlace(x); r.cb = append(r.cb, p) }},
		{name: "ToProfile", run: func(x ap.Item, r *c20Result) { p, _ := ap.ToProfile(x); r.cb = append(r.cb, p) }},
		{name: "ToRelationship", run: func(x ap.Item, r *c20Result) { p, _ := ap.ToRelationship(x); r.cb = append(r.cb, p) }},
		{name: "ToTombstone", run: func(x ap.Item, r *c20Result) { p, _ := ap.ToTombstone(x); r.cb = append(r.cb, p) }},
		{name: "Flatten", run: func(x ap.Item, r *c20Result) { ap.Flatten(x) }},
		{name: "FlattenToIRI", run: func(x ap.Item, r *c20Result) { ap.FlattenToIRI(x) }},
		{name: "FlattenProperties", run: func(x ap.Item, r *c20Result) { ap.FlattenProperties(x) }},
		{name: "FlattenItemCollection", run: func(x ap.Item, r *c20Result) {
			ap.FlattenItemCollection(ap.ItemCollection{x, ap.IRI("https://example.com/i"), x})
		}},
		{name: "ItemCollectionDeduplication", run: func(x ap.Item, r *c20Result) {
			a, b := ap.ItemCollection{x, ap.IRI("https://example.com/i")}, ap.ItemCollection{ap.IRI("https://example.com/i"), x}
			ap.ItemCollectionDeduplication(&a, &b, nil)
		}},
		{name: "CleanRecipients", run: func(x ap.Item, r *c20Result) {
			must(r, ap.CleanRecipients(x) == nil || !ap.IsNil(x), "CleanRecipients(nil-like) != nil")
		}},
		{name: "DerefItem", run: func(x ap.Item, r *c20Result) { ap.DerefItem(x) }},
		{name: "ItemOrderTimestamp(x,valid)", run: func(x ap.Item, r *c20Result) { ap.ItemOrderTimestamp(x, c20Valid()) }},
		{name: "ItemOrderTimestamp(valid,x)", run: func(x ap.Item, r *c20Result) { ap.ItemOrderTimestamp(c20Valid(), x) }},
		{name: "ItemOrderTimestamp(x,x)", run: func(x ap.Item, r *c20Result) { ap.ItemOrderTimestamp(x, x) }},
		{name: "CopyItemProperties(x,valid)", run: func(x ap.Item, r *c20Result) {
			_, err := ap.CopyItemProperties(x, c20Valid())
			must(r, err != nil || !ap.IsNil(x), "no error")
		}},
		{name: "CopyItemProperties(valid,x)", run: func(x ap.Item, r *c20Result) {
			_, err := ap.CopyItemProperties(c20Valid(), x)
			must(r, err != nil || !ap.IsNil(x), "no error")
		}},
		{name: "MarshalJSON", run: func(x ap.Item, r *c20Result) { ap.MarshalJSON(x) }},
		{name: "GobEncode", run: func(x ap.Item, r *c20Result) { ap.GobEncode(x) }},
		{name: "JSONWriteItemProp", run: func(x ap.Item, r *c20Result) { b := []byte{'{'}; ap.JSONWriteItemProp(&b, "p", x) }},
		{name: "JSONWriteIRIProp", run: func(x ap.Item, r *c20Result) { b := []byte{'{'}; ap.JSONWriteIRIProp(&b, "p", x) }},
		{name: "JSONWriteItemCollectionProp", run: func(x ap.Item, r *c20Result) {
			b := []byte{'{'}
			ap.JSONWriteItemCollectionProp(&b, "p", ap.ItemCollection{x, ap.IRI("https://example.com/i")}, false)
			ap.JSONWriteItemCollectionValue(&b, ap.ItemCollection{x}, true)
		}},
		{name: "CollectionPath.IRI", run: func(x ap.Item, r *c20Result) {
			for _, cp := range ap.ActivityPubCollections {
				cp.IRI(x)
			}
		}},
		{name: "CollectionPath.Of", run: func(x ap.Item, r *c20Result) {
			for _, cp := range ap.ActivityPubCollections {
				cp.Of(x)
			}
		}},
		{name: "CollectionPath.AddTo", run: func(x ap.Item, r *c20Result) {
			for _, cp := range append(ap.CollectionPaths{"custom"}, ap.ActivityPubCollections...) {
				cp.AddTo(x)
			}
		}},
		{name: "IRI.ItemsMatch", run: func(x ap.Item, r *c20Result) { ap.IRI("https://example.com").ItemsMatch(x) }},
		{name: "IRIs.Contains", run: func(x ap.Item, r *c20Result) {
			must(r, !ap.IRIs{"https://example.com/i"}.Contains(x) || !ap.IsNil(x), "IRIs.Contains(nil-like) is true")
		}},
		{name: "IRIs.Append", run: func(x ap.Item, r *c20Result) { c := ap.IRIs{"https://example.com/i"}; c.Append(x) }},
	}
	// the six containers: Contains / Append / Remove / ItemsMatch
	type cont struct {
		name string
		mk   func() ap.CollectionInterface
	}
	pre := func() ap.ItemCollection { return ap.ItemCollection{ap.IRI("https://example.com/i"), c20Valid()} }
	conts := []cont{
		{"ItemCollection", func() ap.CollectionInterface { c := pre(); return &c }},
		{"Collection", func() ap.CollectionInterface {
			return &ap.Collection{ID: "https://example.com/c", Type: ap.CollectionType, Items: pre()}
		}},
		{"CollectionPage", func() ap.CollectionInterface {
			return &ap.CollectionPage{ID: "https://example.com/c", Type: ap.CollectionPageType, Items: pre()}
		}},
		{"OrderedCollection", func() ap.CollectionInterface {
			return &ap.OrderedCollection{ID: "https://example.com/c", Type: ap.OrderedCollectionType, OrderedItems: pre()}
		}},
		{"OrderedCollectionPage", func() ap.CollectionInterface {
			return &ap.OrderedCollectionPage{ID: "https://example.com/c", Type: ap.OrderedCollectionPageType, OrderedItems: pre()}
		}},
	}
	for _, ct := range conts {
		ct := ct
		hs = append(hs,
			c20Helper{name: ct.name + ".Contains", run: func(x ap.Item, r *c20Result) {
				must(r, !ct.mk().Contains(x) || !ap.IsNil(x), "Contains(nil-like) is true on a collection without nil members")
			}},
			c20Helper{name: ct.name + ".Append", run: func(x ap.Item, r *c20Result) {
				c := ct.mk()
				c.Append(x)
				c.Contains(c20Valid())
				c.Count()
			}},
			c20Helper{name: ct.name + ".Remove", run: func(x ap.Item, r *c20Result) {
				c := ct.mk()
				ap.OnItemCollection(c.(ap.Item), func(col *ap.ItemCollection) error { col.Remove(x); return nil })
				must(r, c.Count() == 2 || !ap.IsNil(x), "Remove(nil-like) removed a member")
			}},
			c20Helper{name: ct.name + ".ItemsMatch", run: func(x ap.Item, r *c20Result) {
				if m, ok := c20AsMatcher(ct.mk()); ok {
					m.ItemsMatch(x)
				}
			}},
		)
	}
	return hs
}

type c20Matcher interface{ ItemsMatch(...ap.Item) bool }

func c20AsMatcher(c ap.CollectionInterface) (c20Matcher, bool) {
	if m, ok := c.(c20Matcher); ok {
		return m, true
	}
	if ic, ok := c.(*ap.ItemCollection); ok {
		return *ic, true
	}
	return nil, false
}

type c20Nil struct {
	name string
	it   ap.Item
}

func c20Nils() []c20Nil {
	ns := []c20Nil{{"nil", nil}}
	for i := range universe.Structs {
		s := &universe.Structs[i]
		ns = append(ns, c20Nil{"(*" + s.Name + ")(nil)", reflect.Zero(reflect.PointerTo(s.Type)).Interface().(ap.Item)})
	}
	return ns
}

type c20Pos struct {
	name string
	wrap func(x ap.Item) ap.Item
}

var c20Positions = []c20Pos{
	{"top", func(x ap.Item) ap.Item { return x }},
	{"list-member", func(x ap.Item) ap.Item { return ap.ItemCollection{c20Valid(), x, ap.IRI("https://example.com/i")} }},
	{"object-property", func(x ap.Item) ap.Item {
		return c20Fill(&ap.Object{ID: "https://example.com/o", Type: ap.NoteType}, x)
	}},
	{"actor-property", func(x ap.Item) ap.Item {
		return c20Fill(&ap.Actor{ID: "https://example.com/p", Type: ap.PersonType}, x)
	}},
	{"question-property", func(x ap.Item) ap.Item {
		return c20Fill(&ap.Question{ID: "https://example.com/q", Type: ap.QuestionType}, x)
	}},
	{"activity-property", func(x ap.Item) ap.Item {
		return c20Fill(&ap.Activity{ID: "https://example.com/a", Type: ap.LikeType}, x)
	}},
	{"collection-member", func(x ap.Item) ap.Item {
		return c20Fill(&ap.OrderedCollectionPage{ID: "https://example.com/c", Type: ap.OrderedCollectionPageType}, x)
	}},
	{"only-list-member", func(x ap.Item) ap.Item { return ap.ItemCollection{x} }},
	{"only-member-of-list-properties", func(x ap.Item) ap.Item {
		// every item property holds a list whose only member is x (single-item properties hold such a list too)
		host := &ap.Activity{ID: "https://example.com/a", Type: ap.LikeType}
		e := reflect.ValueOf(host).Elem()
		for _, f := range universe.ByName("Activity").ItemFields() {
			fv := e.Field(f.Index)
			if f.Kind == universe.KItems {
				fv.Set(reflect.ValueOf(ap.ItemCollection{x}))
			} else {
				fv.Set(reflect.ValueOf(ap.ItemCollection{x}).Convert(fv.Type()))
			}
		}
		return host
	}},
	{"long-list-member", func(x ap.Item) ap.Item { return c20Long(x, 70) }},
	{"long-list-property", func(x ap.Item) ap.Item {
		return &ap.OrderedCollection{ID: "https://example.com/c", Type: ap.OrderedCollectionType, OrderedItems: c20Long(x, 40), To: c20Long(x, 34), Tag: c20Long(x, 18)}
	}},
}

// c20Long is a list of n members in which x sits first, at 16, 17, 32, 33, 64, 65 (where they exist) and last.
func c20Long(x ap.Item, n int) ap.ItemCollection {
	l := make(ap.ItemCollection, n)
	for i := range l {
		switch i {
		case 0, 16, 17, 32, 33, 64, 65, n - 1:
			l[i] = x
		default:
			if i%3 == 0 {
				l[i] = &ap.Object{ID: ap.IRI(fmt.Sprintf("https://example.com/long/%d", i)), Type: ap.NoteType}
			} else {
				l[i] = ap.IRI(fmt.Sprintf("https://example.com/long/%d", i))
			}
		}
	}
	return l
}

// c20Fill stores x in EVERY item-typed property of host (single-item properties directly, list properties as [x, iri]).
func c20Fill(host ap.Item, x ap.Item) ap.Item {
	e := reflect.ValueOf(host).Elem()
	st := universe.ByName(e.Type().Name())
	for _, f := range st.ItemFields() {
		fv := e.Field(f.Index)
		if f.Kind == universe.KItems {
			fv.Set(reflect.ValueOf(ap.ItemCollection{x, ap.IRI("https://example.com/i")}))
		} else if x != nil {
			fv.Set(reflect.ValueOf(x).Convert(fv.Type()))
		}
	}
	return host
}

func init() {
	engine.Register(&engine.Check{
		ID: "C20", Name: "nil-items", Level: "model_checking",
		Rule: "complete matrix: every helper of the table (predicates, ItemsEqual in both slots, On*/To* incl. OnCollectionIntf and the generic On/To, Flatten*, CleanRecipients, DerefItem, ItemOrderTimestamp, " +
			"CopyItemProperties, CollectionPath.IRI/Of/AddTo, both encoders and the JSON item writers, Contains/Append/Remove/ItemsMatch on the containers) x 15 nil kinds (untyped nil + nil pointer of each struct) x " +
			"11 positions (the argument itself, only member of a list, only member of every list property, member of a short and of a 70-member list, several times in the long lists of a collection, every item property of an Object / Actor / Question / Activity / collection page at once); every case runs in isolation; non-trivial = typed nil",
		Assumptions: []string{"the helper table is audited against the exported functions of the current tree on every run (gaps are listed in the evidence, not judged)",
			"at the top position a callback must receive a nil pointer; below it callbacks are only required not to crash"},
		Bound: func(string) string { return "complete matrix (same in both tiers)" },
		Pre:   c20Audit,
		Run:   c20Run,
	})
}

func c20Run(c *engine.Ctx) {
	helpers := c20Helpers()
	for _, h := range helpers {
		for _, n := range c20Nils() {
			for _, p := range c20Positions {
				h, n, p := h, n, p
				class := "C20|" + h.name + "|" + p.name
				c.Do(class, func() string { return fmt.Sprintf("%s with %s at position %s", h.name, n.name, p.name) }, func(t *engine.T) {
					t.Distinct(n.it != nil)
					var r c20Result
					h.run(p.wrap(n.it), &r)
					t.Ops(1)
					if p.name != "top" {
						return
					}
					for _, chk := range r.checks {
						t.Fail(class+"|"+n.name+"|wrong-answer", "%s(%s): %s", h.name, n.name, chk)
					}
					for _, ptr := range r.cb {
						v := reflect.ValueOf(ptr)
						if v.IsValid() && (v.Kind() == reflect.Pointer || v.Kind() == reflect.Interface) && !v.IsNil() {
							// a non-nil pointer for a nil input must at least be readable and hold a zero value
							if v.Kind() == reflect.Pointer && v.Elem().IsValid() && v.Elem().IsZero() {
								continue
							}
							t.Fail(class+"|"+n.name+"|callback-non-nil", "%s(%s) produced a non-nil, non-zero %T", h.name, n.name, ptr)
						}
					}
				})
			}
		}
	}
}

// c20Audit lists the exported functions/methods of the current tree that take an Item and are not in the helper table.
func c20Audit(p *engine.Parent) error {
	covered := map[string]bool{}
	for _, h := range c20Helpers() {
		n := h.name
		if i := strings.IndexAny(n, "(["); i > 0 {
			n = n[:i]
		}
		covered[n] = true
		if i := strings.LastIndex(n, "."); i > 0 {
			covered[n[i+1:]] = true
		}
	}
	for _, extra := range []string{"ItemCollectionDeduplication", "JSONWriteItemCollectionValue", "On", "To"} {
		covered[extra] = true
	}
	fset := token.NewFileSet()
	files, _ := filepath.Glob(repoDir() + "/*.go")
	var gaps []string
	total := 0
	for _, f := range files {
		if strings.HasSuffix(f, "_test.go") {
			continue
		}
		src, err := os.ReadFile(f)
		if err != nil {
			return err
		}
		af, err := parser.ParseFile(fset, f, src, 0)
		if err != nil {
			return err
		}
		for _, d := range af.Decls {
			fd, ok := d.(*ast.FuncDecl)
			if !ok || !fd.Name.IsExported() || fd.Type.Params == nil {
				continue
			}
			takes := false
			for _, prm := range fd.Type.Params.List {
				s := fmt.Sprint(prm.Type)
				if id, ok := prm.Type.(*ast.Ident); ok {
					s = id.Name
				}
				if el, ok := prm.Type.(*ast.Ellipsis); ok {
					if id, ok := el.Elt.(*ast.Ident); ok {
						s = id.Name
					}
				}
				if s == "Item" || s == "LinkOrIRI" || s == "ObjectOrLink" {
					takes = true
				}
			}
			if !takes {
				continue
			}
			total++
			name := fd.Name.Name
			if strings.HasSuffix(name, "New") || name == "Equals" || name == "ErrorInvalidType" || name == "FromActivityStreams" {
				continue // constructors only store the item; type-specific Equals are outside the stated helper families (ItemsEqual is the entry)
			}
			if !covered[name] {
				recv := ""
				if fd.Recv != nil && len(fd.Recv.List) > 0 {
					recv = fmt.Sprint(fd.Recv.List[0].Type) + "."
				}
				gaps = append(gaps, recv+name)
			}
		}
	}
	sort.Strings(gaps)
	p.Extra["helpers_in_table"] = len(c20Helpers())
	p.Extra["exported_item_taking_functions_in_tree"] = total
	p.Extra["coverage_gaps"] = gaps
	return nil
}

func mustIRIs(it ap.Item) *ap.IRIs {
	switch v := it.(type) {
	case ap.IRIs:
		return &v
	case *ap.IRIs:
		return v
	}
	return &ap.IRIs{}
}
