package checks

import (
	"fmt"
	"os"
	"os/exec"
	"path/filepath"
	"reflect"
	"sort"
	"strings"
	"time"

	ap "github.com/go-ap/activitypub"

	"verif/internal/canon"
	"verif/internal/engine"
	"verif/internal/sites"
	"verif/internal/universe"
)

// C08 — typed views (On*/To*) are field-faithful and never reach outside the value (DESIGN.md §3 C08).
//
// Static half (decisive, parent process): every conversion (*T)(unsafe.Pointer(x)) of the current tree is enumerated after an
// offline type check; the state space is sites x fields of the target; invariant: the target is not larger than the source and
// every target field has the same name (Items/OrderedItems alias), term, type and offset as the source field at that index.
// Dynamic half (workers built with -d=checkptr): every To*/On* helper x every source struct (pointer and value form): shared
// properties read identically through the view, writes through a view of a pointer are seen by the original and vice versa,
// a refused conversion returns an error and no view.

func init() {
	engine.Register(&engine.Check{
		ID: "C08", Name: "typed-views", Level: "model_checking",
		Rule: "static: all pointer-reinterpreting conversion sites of the package x all fields of the target struct (layout invariant on gc/amd64 sizes, cross-checked with reflect); " +
			"dynamic: 14 helpers (To* and On*) x 14 source structs x {pointer, value} on saturated sources with pairwise distinct field contents, read and write-through per shared property, " +
			"containment (a view that aliases the value is never a larger struct); application-defined twin types of the 14 structs x every ordered pair of helpers (history: h1 then h2); " +
			"executed under the runtime pointer checker (-gcflags=all=-d=checkptr); non-trivial = helper/source pair for which a view is returned",
		Assumptions: []string{"layouts are those of gc/amd64 (types.SizesFor), cross-checked against reflect on the machine that runs the check",
			"checkptr alone is not sufficient (an overrun inside the allocator's size class is not reported), which is why the static invariant is the deciding one"},
		Bound: func(string) string {
			return "complete in both tiers: every conversion site x field; every helper x source x form x shared property; 14 foreign types x 14 x 14 helper pairs x {To, On}; families added after round 5: DESIGN.md 8.11"
		},
		Pre: c08Pre,
		WorkerBinary: func(p *engine.Parent) string {
			b := filepath.Join(p.BuildDir(), "verif-check-checkptr")
			if _, err := os.Stat(b); err == nil {
				return b
			}
			return ""
		},
		Shards:      8,
		HangSeconds: 60,
		Run:         c08Run,
	})
}

func c08Pre(p *engine.Parent) error {
	t0 := time.Now()
	res, err := sites.Analyze(repoDir(), p.Root)
	if err != nil {
		return err
	}
	withProblems := 0
	var sampleSites []string
	for _, s := range res.Sites {
		if len(sampleSites) < 6 {
			sampleSites = append(sampleSites, fmt.Sprintf("%s: (*%s)(unsafe.Pointer(%s)) in %s", s.Pos, s.To, s.From, s.Func))
		}
		if len(s.Problems) > 0 {
			withProblems++
		}
		seen := map[string]bool{}
		for _, pr := range s.Problems {
			key := fmt.Sprintf("C08|static|%s|%s->%s|%s", pr.Kind, s.From, s.To, pr.Field)
			if seen[key] {
				continue
			}
			seen[key] = true
			p.AddFailure(engine.Failure{Key: key, Class: "C08|static", Case: fmt.Sprintf("conversion site %s in %s: (*%s)(unsafe.Pointer(<%s>))", s.Pos, s.Func, s.To, s.From), Detail: pr.Detail})
		}
	}
	// cross-check the model's offsets with reflect for the 14 vocabulary structs
	for i := range universe.Structs {
		st := &universe.Structs[i]
		off := res.Offsets(st.Name)
		if off == nil {
			p.AddFailure(engine.Failure{Key: "C08|static|harness|missing-struct|" + st.Name, Class: "C08|static", Case: st.Name, Detail: "struct not found by the type checker"})
			continue
		}
		for k := 0; k < st.Type.NumField(); k++ {
			f := st.Type.Field(k)
			if o, ok := off[f.Name]; !ok || uintptr(o) != f.Offset {
				p.AddFailure(engine.Failure{Key: "C08|static|harness|offset-model-disagrees|" + st.Name, Class: "C08|static", Case: st.Name + "." + f.Name,
					Detail: fmt.Sprintf("types.Sizes says offset %d, reflect says %d", o, f.Offset)})
			}
		}
	}
	p.Extra["conversion_sites"] = len(res.Sites)
	p.Extra["site_field_states"] = res.States
	p.Extra["sites_violating_the_layout_invariant"] = withProblems
	p.Extra["other_unsafe_uses_not_judged"] = res.OtherUnsafe
	p.Extra["site_samples"] = sampleSites
	p.Extra["static_wall_s"] = time.Since(t0).Seconds()
	if len(res.Sites) == 0 {
		p.Notes = append(p.Notes, "no conversion sites found")
	}
	// worker binary with the runtime pointer checker
	out := filepath.Join(p.BuildDir(), "verif-check-checkptr")
	cmd := exec.Command("go", "build", "-gcflags=all=-d=checkptr", "-o", out, "./cmd/verif-check")
	cmd.Dir = p.Root
	if b, err := cmd.CombinedOutput(); err != nil {
		os.Remove(out)
		return fmt.Errorf("checkptr build failed: %v\n%s", err, b)
	}
	p.Extra["dynamic_workers"] = "built with -gcflags=all=-d=checkptr"
	return nil
}

type c08Helper struct {
	name   string
	target string // struct name of the view
	to     func(ap.Item) (any, error)
	on     func(ap.Item, func(any)) error
}

// c08OnErr calls the On helper of h with a callback that runs fn and then returns ret.
func c08OnErr(h c08Helper, it ap.Item, fn func(any), ret error) error {
	switch h.name {
	case "Object":
		return ap.OnObject(it, func(p *ap.Object) error { fn(p); return ret })
	case "Activity":
		return ap.OnActivity(it, func(p *ap.Activity) error { fn(p); return ret })
	case "IntransitiveActivity":
		return ap.OnIntransitiveActivity(it, func(p *ap.IntransitiveActivity) error { fn(p); return ret })
	case "Question":
		return ap.OnQuestion(it, func(p *ap.Question) error { fn(p); return ret })
	case "Actor":
		return ap.OnActor(it, func(p *ap.Actor) error { fn(p); return ret })
	case "Collection":
		return ap.OnCollection(it, func(p *ap.Collection) error { fn(p); return ret })
	case "CollectionPage":
		return ap.OnCollectionPage(it, func(p *ap.CollectionPage) error { fn(p); return ret })
	case "OrderedCollection":
		return ap.OnOrderedCollection(it, func(p *ap.OrderedCollection) error { fn(p); return ret })
	case "OrderedCollectionPage":
		return ap.OnOrderedCollectionPage(it, func(p *ap.OrderedCollectionPage) error { fn(p); return ret })
	case "Place":
		return ap.OnPlace(it, func(p *ap.Place) error { fn(p); return ret })
	case "Profile":
		return ap.OnProfile(it, func(p *ap.Profile) error { fn(p); return ret })
	case "Relationship":
		return ap.OnRelationship(it, func(p *ap.Relationship) error { fn(p); return ret })
	case "Tombstone":
		return ap.OnTombstone(it, func(p *ap.Tombstone) error { fn(p); return ret })
	case "Link":
		return ap.OnLink(it, func(p *ap.Link) error { fn(p); return ret })
	}
	return fmt.Errorf("no such helper")
}

func c08Helpers() []c08Helper {
	return []c08Helper{
		{"Object", "Object", func(i ap.Item) (any, error) { return ap.ToObject(i) }, func(i ap.Item, f func(any)) error {
			return ap.OnObject(i, func(p *ap.Object) error { f(p); return nil })
		}},
		{"Activity", "Activity", func(i ap.Item) (any, error) { return ap.ToActivity(i) }, func(i ap.Item, f func(any)) error {
			return ap.OnActivity(i, func(p *ap.Activity) error { f(p); return nil })
		}},
		{"IntransitiveActivity", "IntransitiveActivity", func(i ap.Item) (any, error) { return ap.ToIntransitiveActivity(i) }, func(i ap.Item, f func(any)) error {
			return ap.OnIntransitiveActivity(i, func(p *ap.IntransitiveActivity) error { f(p); return nil })
		}},
		{"Question", "Question", func(i ap.Item) (any, error) { return ap.ToQuestion(i) }, func(i ap.Item, f func(any)) error {
			return ap.OnQuestion(i, func(p *ap.Question) error { f(p); return nil })
		}},
		{"Actor", "Actor", func(i ap.Item) (any, error) { return ap.ToActor(i) }, func(i ap.Item, f func(any)) error { return ap.OnActor(i, func(p *ap.Actor) error { f(p); return nil }) }},
		{"Collection", "Collection", func(i ap.Item) (any, error) { return ap.ToCollection(i) }, func(i ap.Item, f func(any)) error {
			return ap.OnCollection(i, func(p *ap.Collection) error { f(p); return nil })
		}},
		{"CollectionPage", "CollectionPage", func(i ap.Item) (any, error) { return ap.ToCollectionPage(i) }, func(i ap.Item, f func(any)) error {
			return ap.OnCollectionPage(i, func(p *ap.CollectionPage) error { f(p); return nil })
		}},
		{"OrderedCollection", "OrderedCollection", func(i ap.Item) (any, error) { return ap.ToOrderedCollection(i) }, func(i ap.Item, f func(any)) error {
			return ap.OnOrderedCollection(i, func(p *ap.OrderedCollection) error { f(p); return nil })
		}},
		{"OrderedCollectionPage", "OrderedCollectionPage", func(i ap.Item) (any, error) { return ap.ToOrderedCollectionPage(i) }, func(i ap.Item, f func(any)) error {
			return ap.OnOrderedCollectionPage(i, func(p *ap.OrderedCollectionPage) error { f(p); return nil })
		}},
		{"Place", "Place", func(i ap.Item) (any, error) { return ap.ToPlace(i) }, func(i ap.Item, f func(any)) error { return ap.OnPlace(i, func(p *ap.Place) error { f(p); return nil }) }},
		{"Profile", "Profile", func(i ap.Item) (any, error) { return ap.ToProfile(i) }, func(i ap.Item, f func(any)) error {
			return ap.OnProfile(i, func(p *ap.Profile) error { f(p); return nil })
		}},
		{"Relationship", "Relationship", func(i ap.Item) (any, error) { return ap.ToRelationship(i) }, func(i ap.Item, f func(any)) error {
			return ap.OnRelationship(i, func(p *ap.Relationship) error { f(p); return nil })
		}},
		{"Tombstone", "Tombstone", func(i ap.Item) (any, error) { return ap.ToTombstone(i) }, func(i ap.Item, f func(any)) error {
			return ap.OnTombstone(i, func(p *ap.Tombstone) error { f(p); return nil })
		}},
		{"Link", "Link", func(i ap.Item) (any, error) { return ap.ToLink(i) }, func(i ap.Item, f func(any)) error { return ap.OnLink(i, func(p *ap.Link) error { f(p); return nil }) }},
	}
}

func c08Saturated(s *universe.Struct) universe.Recipe {
	var rec universe.Recipe
	n := 0
	universe.Saturated(s, universe.AnyCodec, func(r universe.Recipe) {
		if n == 1 { // variant 1: mostly embedded objects
			rec = r
		}
		n++
	})
	return rec
}

func c08TermIndex(t reflect.Type) map[string]int {
	m := map[string]int{}
	for i := 0; i < t.NumField(); i++ {
		tm := universe.Term(t.Field(i))
		if tm == "orderedItems" {
			tm = "items" // the members of an ordered collection are the items of its unordered view
		}
		if tm != "" {
			m[tm] = i
		}
	}
	return m
}

// c08DatedMembers gives the members of a collection value dated objects in oldest-first order (so that anything that "tidies"
// the members while making a view - sorting, de-duplicating - shows as a change of the value).
func c08DatedMembers(x any) {
	rv := reflect.ValueOf(x)
	if rv.Kind() != reflect.Pointer || rv.IsNil() {
		return // value forms are built by the recipe; only pointer sources are adjusted in place
	}
	for _, name := range []string{"Items", "OrderedItems"} {
		f := rv.Elem().FieldByName(name)
		if !f.IsValid() {
			continue
		}
		var col ap.ItemCollection
		for i := 0; i < 4; i++ {
			col = append(col, &ap.Object{ID: ap.IRI(fmt.Sprintf("https://example.com/dated/%d", i)), Type: ap.NoteType, Published: universe.T1.Add(time.Duration(i) * time.Hour)})
		}
		col = append(col, col[1]) // and a repeated member
		f.Set(reflect.ValueOf(col))
	}
}

// c08Containment: a view that is the SAME memory as the value it was made from (a reinterpretation, not a copy) must not be a
// larger struct than that value - whatever route produced it (unsafe.Pointer conversion, reflect.Value.UnsafePointer, ...).
// c08Scrub uses and zeroes 16 KiB of stack below its caller, as any ordinary call chain that runs after a helper has returned would.
//
//go:noinline
func c08Scrub(n int) uintptr {
	var pad [2048]uintptr
	for i := range pad {
		pad[i] = 0
	}
	return pad[n&2047]
}

// c08ShallowDiff compares what can be read without following a pointer - integers, booleans, the lengths of strings and slices, the
// nil-ness of interfaces - for the properties the view and the original share. It returns "" when they agree.
func c08ShallowDiff(view any, x any) string {
	rv := reflect.ValueOf(view)
	if view == nil || rv.Kind() != reflect.Pointer || rv.IsNil() {
		return ""
	}
	vv, sv := rv.Elem(), reflect.ValueOf(x)
	if sv.Kind() == reflect.Pointer {
		if sv.IsNil() {
			return ""
		}
		sv = sv.Elem()
	}
	if vv.Kind() != reflect.Struct || sv.Kind() != reflect.Struct {
		return ""
	}
	vIdx, sIdx := c08TermIndex(vv.Type()), c08TermIndex(sv.Type())
	terms := make([]string, 0, len(vIdx))
	for term := range vIdx {
		if _, ok := sIdx[term]; ok {
			terms = append(terms, term)
		}
	}
	sort.Strings(terms)
	shallow := func(f reflect.Value) string {
		switch f.Kind() {
		case reflect.String, reflect.Slice:
			return fmt.Sprintf("len=%d", f.Len())
		case reflect.Int, reflect.Int64, reflect.Uint, reflect.Uint64, reflect.Float64, reflect.Bool:
			return fmt.Sprint(f.Interface())
		case reflect.Interface, reflect.Pointer:
			return fmt.Sprintf("nil=%v", f.IsNil())
		}
		return ""
	}
	for _, term := range terms {
		vf, sf := vv.Field(vIdx[term]), sv.Field(sIdx[term])
		if vf.Kind() != sf.Kind() {
			continue
		}
		if a, b := shallow(vf), shallow(sf); a != b {
			return fmt.Sprintf("%s: view %s, original %s", term, a, b)
		}
	}
	return ""
}

func c08Containment(t *engine.T, class string, src any, view any) {
	sv, vv := reflect.ValueOf(src), reflect.ValueOf(view)
	if sv.Kind() != reflect.Pointer || vv.Kind() != reflect.Pointer || sv.IsNil() || vv.IsNil() {
		return
	}
	if sv.Pointer() != vv.Pointer() {
		return // a copy
	}
	if vs, ss := vv.Type().Elem().Size(), sv.Type().Elem().Size(); vs > ss {
		t.Fail(class+"|view-larger-than-value", "the view is a %s of %d bytes over a %s of %d bytes: its last %d bytes lie outside the value", vv.Type().Elem(), vs, sv.Type().Elem(), ss, vs-ss)
	}
}

// c08ForeignHistories: application-defined twin types of the 14 structs x every ordered pair of helpers (first h1, then h2 on the
// same value; To and On): whatever was converted before, h2 either refuses or returns a view that stays inside the value and
// reads the shared properties identically.
func c08ForeignHistories(c *engine.Ctx) {
	helpers := c08Helpers()
	for i := range universe.Structs {
		src := &universe.Structs[i]
		for _, h1 := range helpers {
			for _, h2 := range helpers {
				for _, via := range []string{"To", "On"} {
					src, h1, h2, via := src, h1, h2, via
					class := fmt.Sprintf("C08|dynamic|foreign|%s%s|%s", via, h2.name, src.Name)
					c.Do(class, func() string {
						return fmt.Sprintf("application-defined type over %s: %s%s(x), then %s%s(x)", src.Name, via, h1.name, via, h2.name)
					}, func(t *engine.T) {
						rec := c08Saturated(src)
						x := rec.Build()
						it := c08Foreign(x)
						if it == nil {
							t.Fail(class+"|harness", "no foreign twin for %T", x)
							return
						}
						call := func(h c08Helper) (any, error) {
							var view any
							var err error
							if via == "To" {
								view, err = h.to(it)
							} else {
								err = h.on(it, func(p any) { view = p })
							}
							t.Ops(1)
							return view, err
						}
						call(h1)
						view, err := call(h2)
						if err != nil || view == nil || reflect.ValueOf(view).IsNil() {
							t.Distinct(false)
							t.Outcome("refused")
							return
						}
						t.Distinct(true)
						t.Outcome("view")
						c08Containment(t, class, x, view)
						vv, sv := reflect.ValueOf(view).Elem(), reflect.ValueOf(x).Elem()
						// the view of a pointer IS the value: a write through it is seen by the original, and the other way round
						if nv, ns := vv.FieldByName("Name"), sv.FieldByName("Name"); nv.IsValid() && ns.IsValid() {
							w1 := ap.NaturalLanguageValues{{Ref: "-", Value: ap.Content("written through the view")}}
							nv.Set(reflect.ValueOf(w1))
							if !reflect.DeepEqual(ns.Interface(), w1) {
								t.Fail(class+"|name|write-through-view-not-seen", "a write through the %s view of an application-defined pointer is not seen by the original", vv.Type().Name())
							}
							w2 := ap.NaturalLanguageValues{{Ref: "-", Value: ap.Content("written on the original")}}
							ns.Set(reflect.ValueOf(w2))
							if !reflect.DeepEqual(nv.Interface(), w2) {
								t.Fail(class+"|name|write-to-original-not-seen", "a write on the original is not seen through the %s view", vv.Type().Name())
							}
						}
						vIdx, sIdx := c08TermIndex(vv.Type()), c08TermIndex(sv.Type())
						for term, vi := range vIdx {
							if si, ok := sIdx[term]; ok && vv.Field(vi).Type() == sv.Field(si).Type() && !reflect.DeepEqual(vv.Field(vi).Interface(), sv.Field(si).Interface()) {
								t.Fail(class+"|"+term+"|reads-differently", "property %s reads differently through the view after %s%s then %s%s", term, via, h1.name, via, h2.name)
							}
						}
					})
				}
			}
		}
	}
}

func c08Run(c *engine.Ctx) {
	c08ForeignHistories(c)
	for _, h := range c08Helpers() {
		for i := range universe.Structs {
			src := &universe.Structs[i]
			for _, form := range []string{"pointer", "value"} {
				for _, via := range []string{"To", "On"} {
					h, src, form, via := h, src, form, via
					class := fmt.Sprintf("C08|dynamic|%s%s|%s|%s", via, h.name, src.Name, form)
					c.Do(class, func() string { return fmt.Sprintf("%s%s(%s %s, saturated)", via, h.name, form, src.Name) }, func(t *engine.T) {
						rec := c08Saturated(src)
						rec.Value = form == "value"
						x := rec.Build()
						c08DatedMembers(x)
						it, _ := x.(ap.Item)
						var view any
						var err error
						called := false
						before := canon.Of(x, canon.Raw)
						// a view must stay readable for as long as the caller holds it: straight after it is made (inside the callback for the
						// On form) an unrelated call uses - and zeroes - 16 KiB of stack, and only what can be read safely whatever the view
						// points at (integers, lengths of strings and lists) is compared first. A view into the dead frame of the helper
						// reads zero lengths here, deterministically; the deep comparison below would crash on it in changing ways.
						dangling := ""
						if via == "To" {
							view, err = h.to(it)
							if err == nil {
								c08Scrub(len(class))
								dangling = c08ShallowDiff(view, x)
							}
						} else {
							err = h.on(it, func(p any) {
								view, called = p, true
								c08Scrub(len(class))
								dangling = c08ShallowDiff(p, x)
							})
						}
						t.Ops(1)
						if dangling != "" {
							t.Fail(class+"|view-does-not-survive-an-unrelated-call", "after an unrelated call that used 16 KiB of stack the view reads differently from the original: %s (the view refers to memory that is not part of the value)", dangling)
							return
						}
						// making a view (and calling back with it) is not a write: the value reads exactly as before
						if after := canon.Of(x, canon.Raw); !canon.Equal(before, after) {
							ds := canon.Diff(before, after)
							t.Fail(class+"|"+canon.LastTerm(ds[0].Path)+"|conversion-modified-the-value", "the value changed while the view was made: %s", ds[0])
						}
						vnil := view == nil || reflect.ValueOf(view).IsNil()
						if err != nil {
							t.Distinct(false)
							t.Outcome("refused")
							if !vnil {
								t.Fail(class+"|error-and-view", "returned an error (%v) together with a non-nil view", err)
							}
							if called {
								t.Fail(class+"|error-and-callback", "called back although the conversion was refused")
							}
							return
						}
						if vnil {
							t.Distinct(false)
							t.Outcome("no-view-no-error")
							t.Fail(class+"|no-view-no-error", "neither a view nor an error")
							return
						}
						t.Distinct(true)
						t.Outcome("view")
						vv := reflect.ValueOf(view).Elem()
						sv := reflect.ValueOf(x)
						if sv.Kind() == reflect.Pointer {
							sv = sv.Elem()
						}
						if vv.Type().Name() != h.target {
							t.Fail(class+"|wrong-view-type", "view is a %s", vv.Type())
						}
						c08Containment(t, class, x, view)
						vIdx, sIdx := c08TermIndex(vv.Type()), c08TermIndex(sv.Type())
						shared := 0
						for term, vi := range vIdx {
							si, ok := sIdx[term]
							if !ok {
								continue
							}
							shared++
							vf, sf := vv.Field(vi), sv.Field(si)
							if vf.Type() != sf.Type() {
								t.Fail(class+"|"+term+"|type-differs", "shared property %s is a %s in the view and a %s in the source", term, vf.Type(), sf.Type())
								continue
							}
							if !reflect.DeepEqual(vf.Interface(), sf.Interface()) {
								t.Fail(class+"|"+term+"|reads-differently", "property %s reads %v through the view, the original holds %v", term, vf.Interface(), sf.Interface())
							}
						}
						t.Ops(shared)
						t.Count("shared_properties_compared", int64(shared))
						if shared < 2 {
							t.Fail(class+"|no-shared-properties", "a view was returned although the types share %d properties", shared)
						}
						if form != "pointer" {
							return
						}
						// a callback that writes through the view and then FAILS: the error comes back, and what was written stays
						// written (a view is the value, not a transaction on a copy)
						if via == "On" {
							marker := ap.NaturalLanguageValues{{Ref: "-", Value: ap.Content("written before the callback failed")}}
							sentinel := fmt.Errorf("callback failed after writing")
							errAfter := c08OnErr(h, it, func(p any) {
								f := reflect.ValueOf(p).Elem().FieldByName("Name")
								if f.IsValid() {
									f.Set(reflect.ValueOf(marker))
								}
							}, sentinel)
							if errAfter != sentinel {
								t.Fail(class+"|callback-error-not-returned", "the callback's error came back as %v", errAfter)
							}
							if sn := sv.FieldByName("Name"); sn.IsValid() && !reflect.DeepEqual(sn.Interface(), marker) {
								t.Fail(class+"|name|write-before-error-not-seen", "a write through the view is not seen by the original when the callback then returns an error")
							}
							t.Ops(2)
						}
						// write-through, both directions, on every shared property
						g := &universe.Gen{}
						for k := 0; k < 500; k++ {
							g.IRI()
						}
						for term, vi := range vIdx {
							si, ok := sIdx[term]
							if !ok {
								continue
							}
							f := src.Fields[0]
							for _, ff := range src.Fields {
								if ff.Index == si {
									f = ff
								}
							}
							shapes := universe.ShapesFor(f, universe.AnyCodec, false)
							if len(shapes) == 0 {
								continue
							}
							fresh := shapes[len(shapes)-1].Build(g)
							vf, sf := vv.Field(vi), sv.Field(si)
							set := func(dst reflect.Value, v reflect.Value) {
								if dst.Kind() == reflect.Interface {
									if v.Kind() == reflect.Interface {
										v = v.Elem()
									}
									dst.Set(v)
									return
								}
								if v.Type() != dst.Type() {
									v = v.Convert(dst.Type())
								}
								dst.Set(v)
							}
							set(vf, fresh)
							if !reflect.DeepEqual(vf.Interface(), sf.Interface()) {
								t.Fail(class+"|"+term+"|write-through-view-not-seen", "a write of %s through the view is not seen by the original", term)
							}
							fresh2 := shapes[0].Build(g)
							set(sf, fresh2)
							if !reflect.DeepEqual(vf.Interface(), sf.Interface()) {
								t.Fail(class+"|"+term+"|write-to-original-not-seen", "a write of %s on the original is not seen through the view", term)
							}
							t.Ops(2)
						}
					})
				}
			}
		}
	}
	_ = strings.ToLower
}
