package checks

import (
	"fmt"
	"strings"

	ap "github.com/go-ap/activitypub"

	"verif/internal/engine"
)

// C15 — collection IRIs and their owners convert back and forth consistently (DESIGN.md §3 C15).

var (
	c15Schemes = []string{"http", "https"}
	c15Hosts   = []string{"e.com", "E.com", "e.com:8080", "e.com:443", "e.com:80", "[2001:db8::1]", "[2001:db8::1]:8443", "inbox", "followers", "shares:8080", "likes.example"}
	c15Paths   = []string{"", "/", "/a", "/a/", "/a/b", "/a/inbox", "/outbox/b", "/a%20b", "/a%2Fb", "/~u", "/a/Likes", "/users/someone/notes/1"}
)

func init() {
	// scale: long segments and many segments (owners 64, 300 and 1100 bytes long, 17 and 33 segments)
	deep := func(n int) string {
		var b strings.Builder
		for i := 0; i < n; i++ {
			fmt.Fprintf(&b, "/s%d", i)
		}
		return b.String()
	}
	c15Paths = append(c15Paths, "/"+strings.Repeat("u", 50), "/"+strings.Repeat("u", 300), "/users/"+strings.Repeat("v", 1100), deep(17), deep(33), deep(33)+"/")
}

func c15LastSegmentIsName(p string) bool {
	p = strings.TrimRight(p, "/")
	seg := p
	if k := strings.LastIndex(p, "/"); k >= 0 {
		seg = p[k+1:]
	}
	for _, c := range ap.ActivityPubCollections {
		if strings.EqualFold(seg, string(c)) {
			return true
		}
	}
	return false
}

func init() {
	engine.Register(&engine.Check{
		ID: "C15", Name: "collection-iris", Level: "model_checking",
		Rule: "owners = scheme{http,https} x host{e.com,E.com,e.com:8080,e.com:443,e.com:80,[2001:db8::1],[2001:db8::1]:8443} x 18 paths (root, trailing slash, nested, percent-escapes, segments that are collection names, segments of 50/300/1100 bytes, 17 and 33 segments) x the 8 well-known " +
			"collection names (from the live ActivityPubCollections); holders = *Object/*Actor/Object/Actor with each collection property unset / explicit IRI / explicit embedded collection; " +
			"complete cross product; non-trivial = owner with a non-empty path or holder with an explicit property",
		Assumptions: []string{"'equivalent' is IRI.Equals with scheme check (validated separately by C14)", "actors are given a specific actor type (Person/Service)"},
		Bound: func(string) string {
			return "complete: 252 owners x 8 names (round trips) + 252 owners (negative) + holder matrix 4 forms x 8 names x 6 states (unset, IRI, collection, pages with partOf, collection with first/current) x 6 ids (same in both tiers); families added after round 5: DESIGN.md 8.11"
		},
		Shards: 8,
		Run:    c15Run,
	})
}

func c15Run(c *engine.Ctx) {
	names := append(ap.CollectionPaths{}, ap.ActivityPubCollections...)
	// owners that are not parsable as URLs take the textual branch of Split: building a collection IRI and splitting it again
	// must give back exactly the owner and the name
	for _, o := range []string{"http://e.com:port/users/1", "http://%zz/users/1", "ht tp://e.com/a", "e.com/a", "/a/b", "a", "http://e.com/a\x7f"} {
		for _, name := range names {
			o, name := o, name
			class := fmt.Sprintf("C15|roundtrip-non-url|%s", name)
			c.Do(class, func() string { return fmt.Sprintf("owner %q (not a parsable URL), collection %s", o, name) }, func(t *engine.T) {
				t.Distinct(true)
				owner := ap.IRI(o)
				built := ap.IRIf(owner, name)
				o2, c2 := ap.Split(built)
				back, err := name.OfActor(built)
				t.Ops(3)
				if c2 != name || o2 != owner {
					t.Fail(class+"|split", "Split(IRIf(%q,%s)=%q) = (%q,%q)", o, name, string(built), string(o2), c2)
				}
				if err != nil || back != owner {
					t.Fail(class+"|ofactor", "%s.OfActor(%q) = (%q,%v)", name, string(built), string(back), err)
				}
				if !ap.ValidCollectionIRI(built) {
					t.Fail(class+"|valid", "ValidCollectionIRI(%q) = false", string(built))
				}
				if ap.ValidCollectionIRI(owner) {
					t.Fail(class+"|valid-owner", "ValidCollectionIRI(%q) = true", o)
				}
			})
		}
	}
	// the three predicates on collection names agree with the tables they are documented by
	c.Do("C15|valid-collection-names", func() string {
		return "ValidCollection / ValidActivityCollection / ValidObjectCollection on every name"
	}, func(t *engine.T) {
		t.Distinct(true)
		all := append(append(ap.CollectionPaths{}, names...), "unknown", "", "inboxx", "INBOX", "Followers")
		for _, n := range all {
			va, vo, vc := ap.ValidActivityCollection(n), ap.ValidObjectCollection(n), ap.ValidCollection(n)
			if vc != (va || vo) {
				t.Fail("C15|valid-collection-names|inconsistent|"+string(n), "ValidCollection(%q)=%v but ValidActivityCollection=%v ValidObjectCollection=%v", n, vc, va, vo)
			}
			known := false
			for _, k := range names {
				if strings.EqualFold(string(k), string(n)) {
					known = true
				}
			}
			if vc && !known {
				t.Fail("C15|valid-collection-names|unknown-name-valid|"+string(n), "ValidCollection(%q) = true for a name that is no well-known collection", n)
			}
		}
		t.Ops(3 * len(all))
	})
	for _, s := range c15Schemes {
		for _, h := range c15Hosts {
			for _, p := range c15Paths {
				owner := ap.IRI(s + "://" + h + p)
				for _, name := range names {
					name, p := name, p
					class := fmt.Sprintf("C15|roundtrip|path=%s|%s", c14Short(p), name)
					c.Do(class, func() string { return fmt.Sprintf("owner %s, collection %s", string(owner), name) }, func(t *engine.T) {
						t.Distinct(p != "")
						built := ap.IRIf(owner, name)
						o2, c2 := ap.Split(built)
						t.Ops(2)
						if c2 != name {
							t.Fail(class+"|split-name", "Split(IRIf(%s,%s)=%s) returned collection %q", string(owner), name, string(built), c2)
						}
						if !o2.Equals(owner, true) {
							t.Fail(class+"|split-owner", "Split(%s) returned owner %s, not equivalent to %s", string(built), string(o2), string(owner))
						}
						viaItem := name.IRI(owner)
						if viaItem != built {
							t.Fail(class+"|iri-of-iri", "%s.IRI(owner) = %s but IRIf = %s", name, string(viaItem), string(built))
						}
						back, err := name.OfActor(viaItem)
						t.Ops(2)
						if err != nil || !back.Equals(owner, true) {
							t.Fail(class+"|ofactor", "%s.OfActor(%s) = (%s, %v), expected an IRI equivalent to %s", name, string(viaItem), string(back), err, string(owner))
						}
						if !ap.ValidCollectionIRI(built) {
							t.Fail(class+"|valid", "ValidCollectionIRI(%s) = false", string(built))
						}
						for _, other := range names {
							if other == name {
								continue
							}
							if _, err := other.OfActor(built); err == nil {
								t.Fail(class+"|ofactor-wrong-name", "%s.OfActor(%s) succeeded", other, string(built))
							}
						}
						t.Ops(1 + len(names))
					})
				}
				p := p
				class := fmt.Sprintf("C15|negative|path=%s", c14Short(p))
				c.Do(class, func() string { return "owner " + string(owner) + " is not a collection IRI" }, func(t *engine.T) {
					t.Distinct(p != "")
					if c15LastSegmentIsName(p) {
						t.Outcome("last-segment-is-a-name")
						return
					}
					t.Ops(2)
					cands := []ap.IRI{owner}
					for _, seg := range []string{"b", "inboxx", "xinbox", "in", "likesandshares", "dislikes", "pre-shares", "\u0130nbox", "%C4%B0nbox", "l\u0130kes", "repl\u0131es",
						"inbox%2F", "in%62ox.", "outbox;v=1", "inbox=", "l%69kes2"} {
						cands = append(cands, ap.IRI(strings.TrimRight(string(owner), "/")+"/"+seg))
					}
					for _, cand := range cands {
						if ap.ValidCollectionIRI(cand) {
							t.Fail(class+"|valid", "ValidCollectionIRI(%s) = true although its last segment is no collection name", string(cand))
						}
						if _, c2 := ap.Split(cand); c2 != ap.Unknown {
							t.Fail(class+"|split-name", "Split(%s) found collection %q", string(cand), c2)
						}
						for _, name := range names {
							if back, err := name.OfActor(cand); err == nil {
								t.Fail(class+"|ofactor-accepts", "%s.OfActor(%s) = %s without error although the last segment is not %s", name, string(cand), string(back), name)
							}
						}
						t.Ops(2 + len(names))
					}
				})
			}
		}
	}
	// holders
	ids := []string{"https://e.com/u", "https://e.com/u/", "http://E.com:8080/a/b", "https://e.com", "https://e.com/a%20b", "https://e.com/~u"}
	type form struct {
		name  string
		actor bool
		ptr   bool
	}
	forms := []form{{"*Object", false, true}, {"Object", false, false}, {"*Actor", true, true}, {"Actor", true, false}}
	fieldOf := map[ap.CollectionPath]string{ap.Inbox: "Inbox", ap.Outbox: "Outbox", ap.Following: "Following", ap.Followers: "Followers", ap.Liked: "Liked",
		ap.Likes: "Likes", ap.Shares: "Shares", ap.Replies: "Replies"}
	for _, f := range forms {
		for _, name := range names {
			for _, state := range []string{"unset", "unset+neighbours", "explicit-iri", "explicit-iri+neighbours", "explicit-collection", "explicit-page-with-partOf", "explicit-ordered-page-with-partOf", "explicit-collection-with-first"} {
				for _, id := range ids {
					f, name, state, id := f, name, state, id
					owns := f.actor || ap.OfObject.Contains(name)
					if !owns && state != "unset" {
						continue
					}
					class := fmt.Sprintf("C15|holder|%s|%s|%s", f.name, name, state)
					c.Do(class, func() string { return fmt.Sprintf("%s id=%s with %s %s", f.name, id, name, state) }, func(t *engine.T) {
						t.Distinct(state != "unset")
						// "+neighbours": every OTHER collection property, the endpoints (shared inbox ...), streams, url and context of the
						// holder are set - the collection under test is the holder's own property or the built IRI, never a neighbour's
						neighbours := strings.HasSuffix(state, "+neighbours")
						state := strings.TrimSuffix(state, "+neighbours")
						var explicit ap.Item
						switch state {
						case "explicit-iri":
							explicit = ap.IRI("https://other.example/custom/" + string(name) + "-x")
						case "explicit-collection":
							explicit = &ap.OrderedCollection{ID: ap.IRI("https://other.example/col/" + string(name)), Type: ap.OrderedCollectionType}
						case "explicit-page-with-partOf":
							// an embedded page: the explicitly set collection is the page itself, not what it is part of
							explicit = &ap.CollectionPage{ID: ap.IRI("https://other.example/col/" + string(name) + "?page=1"), Type: ap.CollectionPageType,
								PartOf: ap.IRI("https://other.example/col/" + string(name)), Next: ap.IRI("https://other.example/col/" + string(name) + "?page=2")}
						case "explicit-ordered-page-with-partOf":
							explicit = &ap.OrderedCollectionPage{ID: ap.IRI("https://other.example/ocol/" + string(name) + "?page=1"), Type: ap.OrderedCollectionPageType,
								PartOf: &ap.OrderedCollection{ID: ap.IRI("https://other.example/ocol/" + string(name)), Type: ap.OrderedCollectionType}}
						case "explicit-collection-with-first":
							explicit = &ap.Collection{ID: ap.IRI("https://other.example/c/" + string(name)), Type: ap.CollectionType, First: ap.IRI("https://other.example/c/" + string(name) + "?page=1"),
								Current: ap.IRI(id)}
						}
						build := func() ap.Item {
							if f.actor {
								a := &ap.Actor{ID: ap.IRI(id), Type: ap.PersonType}
								switch fieldOf[name] {
								case "Inbox":
									a.Inbox = explicit
								case "Outbox":
									a.Outbox = explicit
								case "Following":
									a.Following = explicit
								case "Followers":
									a.Followers = explicit
								case "Liked":
									a.Liked = explicit
								case "Likes":
									a.Likes = explicit
								case "Shares":
									a.Shares = explicit
								case "Replies":
									a.Replies = explicit
								}
								if neighbours {
									nb := func(n string) ap.Item { return ap.IRI("https://neighbour.example/" + n) }
									for fname, set := range map[string]func(ap.Item){"Inbox": func(i ap.Item) { a.Inbox = i }, "Outbox": func(i ap.Item) { a.Outbox = i }, "Following": func(i ap.Item) { a.Following = i },
										"Followers": func(i ap.Item) { a.Followers = i }, "Liked": func(i ap.Item) { a.Liked = i }, "Likes": func(i ap.Item) { a.Likes = i }, "Shares": func(i ap.Item) { a.Shares = i },
										"Replies": func(i ap.Item) { a.Replies = i }} {
										if fname != fieldOf[name] {
											set(nb(strings.ToLower(fname)))
										}
									}
									a.Endpoints = &ap.Endpoints{SharedInbox: nb("shared-inbox"), OauthAuthorizationEndpoint: nb("oauth"), UploadMedia: nb("upload")}
									a.Streams = ap.ItemCollection{nb("stream")}
									a.URL, a.Context, a.Generator = nb("url"), nb("context"), nb("generator")
								}
								if f.ptr {
									return a
								}
								return *a
							}
							o := &ap.Object{ID: ap.IRI(id), Type: ap.NoteType}
							switch fieldOf[name] {
							case "Likes":
								o.Likes = explicit
							case "Shares":
								o.Shares = explicit
							case "Replies":
								o.Replies = explicit
							}
							if neighbours {
								nb := func(n string) ap.Item { return ap.IRI("https://neighbour.example/" + n) }
								if fieldOf[name] != "Likes" {
									o.Likes = nb("likes")
								}
								if fieldOf[name] != "Shares" {
									o.Shares = nb("shares")
								}
								if fieldOf[name] != "Replies" {
									o.Replies = nb("replies")
								}
								o.URL, o.Context, o.AttributedTo = nb("url"), nb("context"), nb("attributed-to")
							}
							if f.ptr {
								return o
							}
							return *o
						}
						holder := build()
						built := ap.IRIf(ap.IRI(id), name)
						of := name.Of(holder)
						iri := name.IRI(holder)
						t.Ops(2)
						if explicit != nil {
							same := of != nil && of.GetLink() == explicit.GetLink()
							if _, isCol := explicit.(*ap.OrderedCollection); isCol && same {
								same = of == explicit
							}
							if !same {
								t.Fail(class+"|of-ignores-explicit", "%s.Of(holder) = %v, the holder's explicit %s is %v", name, of, name, explicit)
							}
							if iri != explicit.GetLink() {
								t.Fail(class+"|iri-ignores-explicit", "%s.IRI(holder) = %s, the holder's explicit %s is %s", name, string(iri), name, string(explicit.GetLink()))
							}
						} else {
							if of == nil || !of.GetLink().Equals(built, true) {
								t.Fail(class+"|of-built", "%s.Of(holder) = %v, expected an IRI equivalent to %s", name, of, string(built))
							}
							if !iri.Equals(built, true) {
								t.Fail(class+"|iri-built", "%s.IRI(holder) = %s, expected an IRI equivalent to %s", name, string(iri), string(built))
							}
						}
						if f.ptr {
							h2 := build()
							added, ok := name.AddTo(h2)
							after := name.Of(h2)
							t.Ops(2)
							if owns && explicit == nil {
								if !ok || !added.Equals(built, true) {
									t.Fail(class+"|addto", "%s.AddTo(holder) = (%s, %v), expected (≡%s, true)", name, string(added), ok, string(built))
								}
								if after == nil || after.GetLink() != added {
									t.Fail(class+"|addto-then-of", "after AddTo, %s.Of(holder) = %v but AddTo returned %s", name, after, string(added))
								}
							}
							if explicit != nil {
								if ok {
									t.Fail(class+"|addto-overwrites", "%s.AddTo(holder) reported success although the property was set", name)
								}
								if after == nil || after.GetLink() != explicit.GetLink() {
									t.Fail(class+"|addto-then-of", "after AddTo, %s.Of(holder) = %v, the explicit %s was %v", name, after, name, explicit)
								}
							}
						}
					})
				}
			}
		}
	}
}
