package checks

import (
	"encoding"
	"encoding/gob"
	"fmt"
	"reflect"
	"time"

	ap "github.com/go-ap/activitypub"

	"verif/internal/canon"
	"verif/internal/engine"
	"verif/internal/universe"
)

// C03 — gob / binary round trip preserves every vocabulary property (DESIGN.md §3 C03).

func init() {
	engine.Register(&engine.Check{
		ID: "C03", Name: "gob-rt", Level: "model_checking",
		Rule: "same reflection-derived universe as C01 plus gob-only shapes (nanosecond and non-UTC instants, sub-second and negative durations): " +
			"level 0, level 1 (every type x field x shape), saturated, level 2 and nesting depth 2 (thorough: all shapes; quick: q shapes on a subset of hosts); " +
			"entry pairs: package GobEncode/GobDecode, T.GobEncode/(*T).GobDecode, MarshalBinary/UnmarshalBinary; distinct by canonical tree, non-trivial when a property beyond id/type is set",
		Assumptions: []string{"reflection-based canon with normal forms N1, N2, N6 only; instants compared at nanosecond precision by time.Equal"},
		Bound: func(tier string) string {
			if tier == "thorough" {
				return "levels 0,1,2(q),saturated; depth 2 over all shapes at every item position"
			}
			return "levels 0,1,saturated; depth 2 over q shapes at every item position (package entry)"
		},
		DeadlineQuick: 6 * time.Minute, DeadlineThorough: 45 * time.Minute,
		Run: c03Run,
	})
}

func gobEncode(entry string, v any) ([]byte, error) {
	switch entry {
	case "pkg":
		it, ok := v.(ap.Item)
		if !ok {
			return nil, fmt.Errorf("%T is not an Item", v)
		}
		return ap.GobEncode(it)
	case "method":
		m, ok := v.(gob.GobEncoder)
		if !ok {
			return nil, fmt.Errorf("%T has no GobEncode", v)
		}
		return m.GobEncode()
	default:
		m, ok := v.(encoding.BinaryMarshaler)
		if !ok {
			return nil, fmt.Errorf("%T has no MarshalBinary", v)
		}
		return m.MarshalBinary()
	}
}

func gobDecode(entry string, t reflect.Type, b []byte) (any, error) {
	switch entry {
	case "pkg":
		return ap.GobDecode(b)
	case "method":
		p := reflect.New(t)
		u, ok := p.Interface().(gob.GobDecoder)
		if !ok {
			return nil, fmt.Errorf("*%s has no GobDecode", t.Name())
		}
		return p.Interface(), u.GobDecode(b)
	default:
		p := reflect.New(t)
		u, ok := p.Interface().(encoding.BinaryUnmarshaler)
		if !ok {
			return nil, fmt.Errorf("*%s has no UnmarshalBinary", t.Name())
		}
		return p.Interface(), u.UnmarshalBinary(b)
	}
}

func c03Case(c *engine.Ctx, r universe.Recipe, entry string) {
	class := "C03|gob-rt|" + r.Struct.Name
	c.Do(class, func() string { return entry + " gob round trip of " + r.String() }, func(t *engine.T) {
		x := r.Build()
		want := canon.Of(x, canon.Gob)
		t.State(engine.Hash64(entry, want.String()), len(r.Sets) > 0)
		b, err := gobEncode(entry, x)
		t.Ops(1)
		if err != nil || len(b) == 0 {
			t.Outcome("encode-empty-or-error")
			if want != nil {
				t.Fail(class+"|*|whole-value|encode-failed", "encoder returned %d bytes, err=%v for a non-empty value %s", len(b), err, want)
			}
			return
		}
		y, err := gobDecode(entry, r.Struct.Type, b)
		t.Ops(1)
		if err != nil {
			t.Outcome("decode-error")
			t.Fail(class+"|*|whole-value|decode-error", "decoder rejected the library's own output: %v", err)
			return
		}
		got := canon.Of(y, canon.Gob)
		if gt := structNameOf(y); gt != r.Struct.Name {
			t.Fail(fmt.Sprintf("%s|*|top|type-changed:%s->%s", class, r.Struct.Name, gt), "decoded value is a %T", y)
		}
		ds := canon.Diff(want, got)
		if len(ds) == 0 {
			t.Outcome("round-trips")
			return
		}
		t.Outcome("differs")
		for _, d := range ds {
			if d.Path == "" && len(d.Symptom) > 4 && d.Symptom[:4] == "type" {
				continue
			}
			t.Fail("C03|gob-rt|"+deltaKey(r.Struct.Name, d), "%s via %s entry", d, entry)
		}
	})
}

func c03Run(c *engine.Ctx) {
	entries := []string{"pkg", "method", "binary"}
	all := func(r universe.Recipe) {
		for _, e := range entries {
			if e == "pkg" && r.TypeName == "" && r.Struct.Name != "Object" {
				continue
			}
			c03Case(c, r, e)
		}
	}
	for i := range universe.Structs {
		s := &universe.Structs[i]
		universe.Level0(s, all)
		universe.Level1(s, universe.Gob, false, all)
		universe.Saturated(s, universe.Gob, all)
	}
	var emb []universe.Shape
	universe.Depth2Embedded(universe.Gob, c.Quick(), func(sh universe.Shape) { emb = append(emb, sh) })
	for i := range universe.Structs {
		s := &universe.Structs[i]
		for _, f := range s.ItemFields() {
			for _, sh := range emb {
				r := universe.Recipe{Struct: s, TypeName: s.SpecificName(), Sets: []universe.Set{{Field: f, Shape: universe.WrapForField(f, sh)}}}
				c03Case(c, r, "pkg")
			}
		}
	}
	if c.Quick() {
		return
	}
	for i := range universe.Structs {
		universe.Level2(&universe.Structs[i], universe.Gob, func(r universe.Recipe) { c03Case(c, r, "method") })
	}
}
