package checks

import (
	"encoding"
	"encoding/gob"
	"fmt"
	"reflect"
	"strings"
	"time"

	ap "github.com/go-ap/activitypub"

	"verif/internal/canon"
	"verif/internal/engine"
	"verif/internal/universe"
)

// C03 — gob / binary round trip preserves every vocabulary property (DESIGN.md §3 C03).

func init() {
	engine.Register(&engine.Check{
		ID: "C03", Name: "gob-rt", Level: "model_checking",
		Rule: "same reflection-derived universe as C01 plus gob-only shapes (nanosecond and non-UTC instants, sub-second and negative durations): " +
			"level 0, level 1 (every type x field x shape), saturated, level 2 and nesting depth 2 (thorough: all shapes; quick: q shapes on a subset of hosts); " +
			"entry pairs: package GobEncode/GobDecode, T.GobEncode/(*T).GobDecode, MarshalBinary/UnmarshalBinary; distinct by canonical tree, non-trivial when a property beyond id/type is set",
		Assumptions: []string{"reflection-based canon with normal forms N1, N2, N6 only; instants compared at nanosecond precision by time.Equal"},
		Bound: func(tier string) string {
			if tier == "thorough" {
				return "levels 0,1,2(q),saturated; depth 2 over all shapes at every item position; plus the scale dimension of C01 (boundary-length strings, lists of 17/33/65, large integers, empty neighbours, shared identities); IRI forms, generic type names and list forms as in C01"
			}
			return "levels 0,1,saturated; depth 2 over q shapes at every item position (package entry); plus the scale dimension of C01 (boundary-length strings, lists of 17/33/65, large integers, empty neighbours, shared identities); IRI forms, generic type names and list forms as in C01"
		},
		DeadlineQuick: 6 * time.Minute, DeadlineThorough: 45 * time.Minute,
		Run: c03Run,
	})
}

func gobEncode(entry string, v any) ([]byte, error) {
	switch entry {
	case "pkg":
		it, ok := v.(ap.Item)
		if !ok {
			return nil, fmt.Errorf("%T is not an Item", v)
		}
		return ap.GobEncode(it)
	case "method":
		m, ok := v.(gob.GobEncoder)
		if !ok {
			return nil, fmt.Errorf("%T has no GobEncode", v)
		}
		return m.GobEncode()
	default:
		m, ok := v.(encoding.BinaryMarshaler)
		if !ok {
			return nil, fmt.Errorf("%T has no MarshalBinary", v)
		}
		return m.MarshalBinary()
	}
}

func gobDecode(entry string, t reflect.Type, b []byte) (any, error) {
	switch entry {
	case "pkg":
		return ap.GobDecode(b)
	case "method":
		p := reflect.New(t)
		u, ok := p.Interface().(gob.GobDecoder)
		if !ok {
			return nil, fmt.Errorf("*%s has no GobDecode", t.Name())
		}
		return p.Interface(), u.GobDecode(b)
	default:
		p := reflect.New(t)
		u, ok := p.Interface().(encoding.BinaryUnmarshaler)
		if !ok {
			return nil, fmt.Errorf("*%s has no UnmarshalBinary", t.Name())
		}
		return p.Interface(), u.UnmarshalBinary(b)
	}
}

func c03Case(c *engine.Ctx, r universe.Recipe, entry string) {
	class := "C03|gob-rt|" + r.Struct.Name
	c.Do(class, func() string { return entry + " gob round trip of " + r.String() }, func(t *engine.T) {
		x := r.Build()
		want := canon.Of(x, canon.Gob)
		t.State(engine.Hash64(entry, want.String()), len(r.Sets) > 0)
		b, err := gobEncode(entry, x)
		t.Ops(1)
		if err != nil || len(b) == 0 {
			t.Outcome("encode-empty-or-error")
			if want != nil {
				t.Fail(class+"|*|whole-value|encode-failed", "encoder returned %d bytes, err=%v for a non-empty value %s", len(b), err, want)
			}
			return
		}
		y, err := gobDecode(entry, r.Struct.Type, b)
		t.Ops(1)
		if err != nil {
			t.Outcome("decode-error")
			t.Fail(class+"|*|whole-value|decode-error", "decoder rejected the library's own output: %v", err)
			return
		}
		got := canon.Of(y, canon.Gob)
		if gt := structNameOf(y); gt != r.Struct.Name {
			t.Fail(fmt.Sprintf("%s|*|top|type-changed:%s->%s", class, r.Struct.Name, gt), "decoded value is a %T", y)
		}
		ds := canon.Diff(want, got)
		if len(ds) == 0 {
			t.Outcome("round-trips")
			return
		}
		t.Outcome("differs")
		for _, d := range ds {
			if d.Path == "" && len(d.Symptom) > 4 && d.Symptom[:4] == "type" {
				continue
			}
			t.Fail("C03|gob-rt|"+deltaKey(r.Struct.Name, d), "%s via %s entry", d, entry)
		}
	})
}

func c03Run(c *engine.Ctx) {
	entries := []string{"pkg", "method", "binary"}
	all := func(r universe.Recipe) {
		for _, e := range entries {
			if e == "pkg" && r.TypeName == "" && r.Struct.Name != "Object" {
				continue
			}
			c03Case(c, r, e)
		}
	}
	for i := range universe.Structs {
		s := &universe.Structs[i]
		universe.Level0(s, all)
		universe.Level1(s, universe.Gob, false, all)
		universe.Saturated(s, universe.Gob, all)
	}
	var emb []universe.Shape
	universe.Depth2Embedded(universe.Gob, c.Quick(), func(sh universe.Shape) { emb = append(emb, sh) })
	for i := range universe.Structs {
		s := &universe.Structs[i]
		for _, f := range s.ItemFields() {
			for _, sh := range emb {
				r := universe.Recipe{Struct: s, TypeName: s.SpecificName(), Sets: []universe.Set{{Field: f, Shape: universe.WrapForField(f, sh)}}}
				c03Case(c, r, "pkg")
			}
		}
	}
	c03Scalars(c)
	universe.Scale(func(r universe.Recipe) { c03Case(c, r, "method") })
	universe.IRIPresentations(func(r universe.Recipe) { c03Case(c, r, "pkg") })
	moreFamilies(universe.Gob, func(r universe.Recipe) { c03Case(c, r, "pkg") })
	for i := range universe.Structs {
		s := &universe.Structs[i]
		universe.GenericNames(s, universe.Gob, all)
		universe.ListForms(s, func(r universe.Recipe) { c03Case(c, r, "pkg") })
	}
	for i := range universe.Structs {
		s := &universe.Structs[i]
		universe.Degenerate(s, universe.Gob, func(r universe.Recipe) { c03Case(c, r, "method") })
		universe.SharedIdentity(s, func(r universe.Recipe) { c03Case(c, r, "pkg") })
	}
	if c.Quick() {
		return
	}
	for i := range universe.Structs {
		universe.Level2(&universe.Structs[i], universe.Gob, func(r universe.Recipe) { c03Case(c, r, "method") })
	}
}

// c03Scalars round-trips the types that are not vocabulary structs through their own GobEncode/GobDecode and
// MarshalBinary/UnmarshalBinary pairs, and top-level item lists through the package functions.
func c03Scalars(c *engine.Ctx) {
	type sc struct {
		name string
		mk   func() any
		zero func() any
	}
	var cases []sc
	add := func(name string, mk func() any, zero func() any) { cases = append(cases, sc{name, mk, zero}) }
	for i := range universe.Nested {
		s := &universe.Nested[i]
		for _, f := range s.Fields {
			for _, sh := range universe.ShapesFor(f, universe.Gob, false) {
				r := universe.Recipe{Struct: s, Value: true, Sets: []universe.Set{{Field: f, Shape: sh}}}
				add(r.String(), func() any { return r.Build() }, func() any { return reflect.New(s.Type).Interface() })
			}
		}
	}
	for _, sh := range universe.Shapes(universe.KNLV) {
		sh := sh
		add("NaturalLanguageValues "+sh.Name, func() any { return sh.Build(&universe.Gen{}).Interface() }, func() any { return new(ap.NaturalLanguageValues) })
	}
	add("LangRefValue tagged", func() any { return ap.LangRefValue{Ref: "en-US", Value: ap.Content("text \x00 with NUL")} }, func() any { return new(ap.LangRefValue) })
	add("LangRefValue untagged", func() any { return ap.LangRefValue{Ref: ap.NilLangRef, Value: ap.Content("t")} }, func() any { return new(ap.LangRefValue) })
	add("Content", func() any { return ap.Content("some \"content\"\n") }, func() any { return new(ap.Content) })
	add("LangRef", func() any { return ap.LangRef("zh-Hant") }, func() any { return new(ap.LangRef) })
	add("MimeType", func() any { return ap.MimeType("text/html") }, func() any { return new(ap.MimeType) })
	add("ActivityVocabularyType", func() any { return ap.NoteType }, func() any { return new(ap.ActivityVocabularyType) })
	add("IRI", func() any { return (&universe.Gen{}).IRI() }, func() any { return new(ap.IRI) })
	add("IRIs[3]", func() any { g := &universe.Gen{}; return ap.IRIs{g.IRI(), g.IRI(), g.IRI()} }, func() any { return new(ap.IRIs) })
	for _, sh := range universe.ItemsShapes() {
		sh := sh
		add("ItemCollection "+sh.Name, func() any { return sh.Build(&universe.Gen{}).Interface() }, nil)
	}
	add("IRIs-as-item", func() any { g := &universe.Gen{}; return ap.IRIs{g.IRI(), g.IRI()} }, nil)
	for _, k := range cases {
		for _, entry := range []string{"method", "binary", "pkg"} {
			k, entry := k, entry
			if (entry == "pkg") != (k.zero == nil) {
				continue
			}
			class := "C03|gob-rt-scalar|" + strings.Fields(k.name)[0]
			c.Do(class, func() string { return entry + " gob pair of " + k.name }, func(t *engine.T) {
				x := k.mk()
				want := canon.Of(x, canon.Gob)
				t.State(engine.Hash64("scalar", entry, k.name), true)
				if _, ok := x.(encoding.BinaryMarshaler); entry == "binary" && !ok {
					return // the type has no binary pair
				}
				b, err := gobEncode(entry, x)
				t.Ops(1)
				if err != nil || len(b) == 0 {
					t.Fail(class+"|encode-failed", "%s encode: %d bytes, %v for %s", entry, len(b), err, want)
					return
				}
				var got *canon.Node
				if k.zero == nil {
					it, err := ap.GobDecode(b)
					if err != nil {
						t.Fail(class+"|decode-error", "%v", err)
						return
					}
					got = canon.Of(it, canon.Gob)
				} else {
					z := k.zero()
					var derr error
					if entry == "method" {
						derr = z.(gob.GobDecoder).GobDecode(b)
					} else if u, ok := z.(encoding.BinaryUnmarshaler); ok {
						derr = u.UnmarshalBinary(b)
					} else {
						return // the type has no binary pair
					}
					if derr != nil {
						t.Fail(class+"|decode-error", "%v", derr)
						return
					}
					got = canon.Of(z, canon.Gob)
				}
				t.Ops(1)
				for _, d := range canon.Diff(want, got) {
					t.Fail("C03|gob-rt-scalar|"+deltaKey(strings.Fields(k.name)[0], d), "%s via %s", d, entry)
				}
			})
		}
	}
}
