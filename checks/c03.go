package checks

import (
	"encoding"
	"encoding/gob"
	"fmt"
	"reflect"
	"strings"
	"time"

	ap "github.com/go-ap/activitypub"

	"verif/internal/canon"
	"verif/internal/engine"
	"verif/internal/universe"
)

// C03 — gob / binary round trip preserves every vocabulary property (DESIGN.md §3 C03).

func init() {
	engine.Register(&engine.Check{
		ID: "C03", Name: "gob-rt", Level: "model_checking",
		Rule: "same reflection-derived universe as C01 plus gob-only shapes (nanosecond and non-UTC instants, sub-second and negative durations): " +
			"level 0, level 1 (every type x field x shape), saturated, level 2 and nesting depth 2 (thorough: all shapes; quick: q shapes on a subset of hosts); " +
			"entry pairs: package GobEncode/GobDecode, T.GobEncode/(*T).GobDecode, MarshalBinary/UnmarshalBinary; distinct by canonical tree, non-trivial when a property beyond id/type is set",
		Assumptions: []string{"reflection-based canon with normal forms N1, N2, N6 only; instants compared at nanosecond precision by time.Equal"},
		Bound: func(tier string) string {
			if tier == "thorough" {
				return "levels 0,1,2(q),saturated; depth 2 over all shapes at every item position; plus the scale dimension of C01 (boundary-length strings, lists of 17/33/65, large integers, empty neighbours, shared identities); IRI forms, generic type names and list forms as in C01; families added after round 5: DESIGN.md 8.11"
			}
			return "levels 0,1,saturated; depth 2 over q shapes at every item position (package entry); plus the scale dimension of C01 (boundary-length strings, lists of 17/33/65, large integers, empty neighbours, shared identities); IRI forms, generic type names and list forms as in C01; families added after round 5: DESIGN.md 8.11"
		},
		DeadlineQuick: 6 * time.Minute, DeadlineThorough: 45 * time.Minute,
		Run: c03Run,
	})
}

func gobEncode(entry string, v any) ([]byte, error) {
	switch entry {
	case "pkg":
		it, ok := v.(ap.Item)
		if !ok {
			return nil, fmt.Errorf("%T is not an Item", v)
		}
		return ap.GobEncode(it)
	case "method":
		m, ok := v.(gob.GobEncoder)
		if !ok {
			return nil, fmt.Errorf("%T has no GobEncode", v)
		}
		return m.GobEncode()
	default:
		m, ok := v.(encoding.BinaryMarshaler)
		if !ok {
			return nil, fmt.Errorf("%T has no MarshalBinary", v)
		}
		return m.MarshalBinary()
	}
}

func gobDecode(entry string, t reflect.Type, b []byte) (any, error) {
	switch entry {
	case "pkg":
		return ap.GobDecode(b)
	case "method":
		p := reflect.New(t)
		u, ok := p.Interface().(gob.GobDecoder)
		if !ok {
			return nil, fmt.Errorf("*%s has no GobDecode", t.Name())
		}
		return p.Interface(), u.GobDecode(b)
	default:
		p := reflect.New(t)
		u, ok := p.Interface().(encoding.BinaryUnmarshaler)
		if !ok {
			return nil, fmt.Errorf("*%s has no UnmarshalBinary", t.Name())
		}
		return p.Interface(), u.UnmarshalBinary(b)
	}
}

func c03Case(c *engine.Ctx, r universe.Recipe, entry string) {
	class := "C03|gob-rt|" + r.Struct.Name
	c.Do(class, func() string { return entry + " gob round trip of " + r.String() }, func(t *engine.T) {
		x := r.Build()
		want := canon.Of(x, canon.Gob)
		t.State(engine.Hash64(entry, want.String()), len(r.Sets) > 0)
		b, err := gobEncode(entry, x)
		t.Ops(1)
		if err != nil || len(b) == 0 {
			t.Outcome("encode-empty-or-error")
			if want != nil {
				t.Fail(class+"|*|whole-value|encode-failed", "encoder returned %d bytes, err=%v for a non-empty value %s", len(b), err, want)
			}
			return
		}
		y, err := gobDecode(entry, r.Struct.Type, b)
		t.Ops(1)
		if err != nil {
			t.Outcome("decode-error")
			t.Fail(class+"|*|whole-value|decode-error", "decoder rejected the library's own output: %v", err)
			return
		}
		got := canon.Of(y, canon.Gob)
		if gt := structNameOf(y); gt != r.Struct.Name {
			t.Fail(fmt.Sprintf("%s|*|top|type-changed:%s->%s", class, r.Struct.Name, gt), "decoded value is a %T", y)
		}
		ds := canon.Diff(want, got)
		if len(ds) == 0 {
			// the entries of a language list come back in the order they were stored (an ordered map, C19); a codec that goes
			// through a Go map scrambles them at random, so lists of two or more entries are sent round 8 times
			if canon.HasMultiLang(want) {
				for round := 0; round < 8; round++ {
					if round > 0 {
						b, _ = gobEncode(entry, x)
						y, err = gobDecode(entry, r.Struct.Type, b)
						if err != nil {
							break
						}
						got = canon.Of(y, canon.Gob)
					}
					if where := canon.OrderDiff(want, got); where != "" {
						t.Fail("C03|gob-rt|"+r.Struct.Name+"|"+canon.LastTerm(where)+"|lang-order-changed", "the entries of %s came back in another order (round %d) via %s entry: %s", where, round, entry, got)
						break
					}
				}
			}
			t.Outcome("round-trips")
			return
		}
		t.Outcome("differs")
		for _, d := range ds {
			if d.Path == "" && len(d.Symptom) > 4 && d.Symptom[:4] == "type" {
				continue
			}
			t.Fail("C03|gob-rt|"+deltaKey(r.Struct.Name, d), "%s via %s entry", d, entry)
		}
	})
}

func c03Run(c *engine.Ctx) {
	entries := []string{"pkg", "method", "binary"}
	all := func(r universe.Recipe) {
		for _, e := range entries {
			if e == "pkg" && r.TypeName == "" && r.Struct.Name != "Object" {
				continue
			}
			c03Case(c, r, e)
		}
	}
	for i := range universe.Structs {
		s := &universe.Structs[i]
		universe.Level0(s, all)
		universe.Level1(s, universe.Gob, false, all)
		universe.Saturated(s, universe.Gob, all)
	}
	var emb []universe.Shape
	universe.Depth2Embedded(universe.Gob, c.Quick(), func(sh universe.Shape) { emb = append(emb, sh) })
	for i := range universe.Structs {
		s := &universe.Structs[i]
		for _, f := range s.ItemFields() {
			for _, sh := range emb {
				r := universe.Recipe{Struct: s, TypeName: s.SpecificName(), Sets: []universe.Set{{Field: f, Shape: universe.WrapForField(f, sh)}}}
				c03Case(c, r, "pkg")
			}
		}
	}
	c03Scalars(c)
	c03Histories(c)
	universe.Scale(func(r universe.Recipe) { c03Case(c, r, "method") })
	universe.IRIPresentations(func(r universe.Recipe) { c03Case(c, r, "pkg") })
	moreFamilies(universe.Gob, func(r universe.Recipe) { c03Case(c, r, "pkg") })
	for i := range universe.Structs {
		s := &universe.Structs[i]
		universe.GenericNames(s, universe.Gob, all)
		universe.ListForms(s, func(r universe.Recipe) { c03Case(c, r, "pkg") })
	}
	for i := range universe.Structs {
		s := &universe.Structs[i]
		universe.Degenerate(s, universe.Gob, func(r universe.Recipe) { c03Case(c, r, "method") })
		universe.SharedIdentity(s, func(r universe.Recipe) { c03Case(c, r, "pkg") })
	}
	if c.Quick() {
		return
	}
	for i := range universe.Structs {
		universe.Level2(&universe.Structs[i], universe.Gob, func(r universe.Recipe) { c03Case(c, r, "method") })
	}
}

// c03Scalars round-trips the types that are not vocabulary structs through their own GobEncode/GobDecode and
// MarshalBinary/UnmarshalBinary pairs, and top-level item lists through the package functions.
// c03Histories: what is decoded must not depend on what was decoded before. Pairs of values that differ only in a string-typed
// property (media type, type name, units, hrefLang, key material) whose two spellings collide under a common 32-bit hash, and pairs
// whose ids collide: both are encoded, then decoded one after the other in both orders, through the package functions and the
// methods (an interning table or cache keyed by a hash shows as the second value reading back as the first).
func c03Histories(c *engine.Ctx) {
	type mk func(s string) ap.Item
	makers := []struct {
		name string
		mk   mk
	}{
		{"Object.mediaType", func(s string) ap.Item {
			return &ap.Object{ID: "https://example.com/o", Type: ap.DocumentType, MediaType: ap.MimeType(s)}
		}},
		{"Link.mediaType", func(s string) ap.Item {
			return &ap.Link{ID: "https://example.com/l", Type: ap.LinkType, Href: "https://example.com/h", MediaType: ap.MimeType(s)}
		}},
		{"Object.source.mediaType", func(s string) ap.Item {
			return &ap.Object{ID: "https://example.com/o", Type: ap.NoteType, Source: ap.Source{MediaType: ap.MimeType(s), Content: ap.NaturalLanguageValues{{Ref: "-", Value: ap.Content("src")}}}}
		}},
		{"Place.units", func(s string) ap.Item {
			return &ap.Place{ID: "https://example.com/p", Type: ap.PlaceType, Units: s, Radius: 3}
		}},
		{"Link.hrefLang", func(s string) ap.Item {
			return &ap.Link{ID: "https://example.com/l", Type: ap.LinkType, Href: "https://example.com/h", HrefLang: ap.LangRef(s)}
		}},
		{"Actor.publicKeyPem", func(s string) ap.Item {
			return &ap.Actor{ID: "https://example.com/a", Type: ap.PersonType, PublicKey: ap.PublicKey{ID: "https://example.com/a#k", Owner: "https://example.com/a", PublicKeyPem: s}}
		}},
		{"Object.name", func(s string) ap.Item {
			return &ap.Object{ID: "https://example.com/o", Type: ap.NoteType, Name: ap.NaturalLanguageValues{{Ref: "-", Value: ap.Content(s)}}}
		}},
		{"Object.nameMap tag", func(s string) ap.Item {
			return &ap.Object{ID: "https://example.com/o", Type: ap.NoteType, Name: ap.NaturalLanguageValues{{Ref: ap.LangRef(s), Value: ap.Content("x")}, {Ref: "fr", Value: ap.Content("y")}}}
		}},
		{"Object.id", func(s string) ap.Item { return &ap.Object{ID: ap.IRI("https://example.com/" + s), Type: ap.NoteType} }},
		{"Object.attributedTo", func(s string) ap.Item {
			return &ap.Object{ID: "https://example.com/o", Type: ap.NoteType, AttributedTo: ap.IRI("https://example.com/" + s)}
		}},
	}
	var pairs [][2]string
	pairs = append(pairs, universe.CollidingStrings()...)
	for _, p := range universe.CollidingIDs() {
		pairs = append(pairs, [2]string{string(p[0]), string(p[1])})
	}
	for _, m := range makers {
		for k, p := range pairs {
			if strings.HasPrefix(p[0], "https://") != (m.name == "Object.id" || m.name == "Object.attributedTo") {
				continue
			}
			m, k, p := m, k, p
			if strings.HasPrefix(p[0], "https://") {
				p = [2]string{strings.TrimPrefix(p[0], "https://"), strings.TrimPrefix(p[1], "https://")}
			}
			class := "C03|gob-history|" + m.name
			c.Do(class, func() string {
				return fmt.Sprintf("%s = %q, then the same value with %q (the two collide under a 32-bit hash, pair #%d): each decodes to what was encoded, in both orders", m.name, p[0], p[1], k)
			}, func(t *engine.T) {
				t.Distinct(true)
				for _, order := range [][2]int{{0, 1}, {1, 0}} {
					for _, entry := range []string{"pkg", "binary"} {
						var vals, back [2]ap.Item
						var enc [2][]byte
						for i := 0; i < 2; i++ {
							vals[i] = m.mk(p[order[i]])
							b, err := gobEncode(entry, vals[i])
							if err != nil {
								t.Fail(class+"|encode-error", "%v", err)
								return
							}
							enc[i] = b
						}
						for i := 0; i < 2; i++ {
							y, err := gobDecode(entry, reflect.TypeOf(vals[i]).Elem(), enc[i])
							if err != nil {
								t.Fail(class+"|decode-error", "%v", err)
								return
							}
							back[i], _ = y.(ap.Item)
						}
						t.Ops(4)
						for i := 0; i < 2; i++ {
							if ds := canon.Diff(canon.Of(vals[i], canon.Gob), canon.Of(back[i], canon.Gob)); len(ds) > 0 {
								t.Fail(class+"|value-"+[]string{"first", "second"}[i]+"-in-the-history-changed", "decoded #%d of the history (%s entry) differs from what was encoded: %s", i+1, entry, ds[0])
							}
						}
					}
				}
			})
		}
	}
}

func c03Scalars(c *engine.Ctx) {
	type sc struct {
		name string
		mk   func() any
		zero func() any
	}
	var cases []sc
	add := func(name string, mk func() any, zero func() any) { cases = append(cases, sc{name, mk, zero}) }
	for i := range universe.Nested {
		s := &universe.Nested[i]
		for _, f := range s.Fields {
			for _, sh := range universe.ShapesFor(f, universe.Gob, false) {
				r := universe.Recipe{Struct: s, Value: true, Sets: []universe.Set{{Field: f, Shape: sh}}}
				add(r.String(), func() any { return r.Build() }, func() any { return reflect.New(s.Type).Interface() })
			}
		}
	}
	for _, sh := range universe.Shapes(universe.KNLV) {
		sh := sh
		add("NaturalLanguageValues "+sh.Name, func() any { return sh.Build(&universe.Gen{}).Interface() }, func() any { return new(ap.NaturalLanguageValues) })
	}
	add("LangRefValue tagged", func() any { return ap.LangRefValue{Ref: "en-US", Value: ap.Content("text \x00 with NUL")} }, func() any { return new(ap.LangRefValue) })
	add("LangRefValue untagged", func() any { return ap.LangRefValue{Ref: ap.NilLangRef, Value: ap.Content("t")} }, func() any { return new(ap.LangRefValue) })
	add("Content", func() any { return ap.Content("some \"content\"\n") }, func() any { return new(ap.Content) })
	add("LangRef", func() any { return ap.LangRef("zh-Hant") }, func() any { return new(ap.LangRef) })
	add("MimeType", func() any { return ap.MimeType("text/html") }, func() any { return new(ap.MimeType) })
	add("ActivityVocabularyType", func() any { return ap.NoteType }, func() any { return new(ap.ActivityVocabularyType) })
	add("IRI", func() any { return (&universe.Gen{}).IRI() }, func() any { return new(ap.IRI) })
	add("IRIs[3]", func() any { g := &universe.Gen{}; return ap.IRIs{g.IRI(), g.IRI(), g.IRI()} }, func() any { return new(ap.IRIs) })
	for _, sh := range universe.ItemsShapes() {
		sh := sh
		add("ItemCollection "+sh.Name, func() any { return sh.Build(&universe.Gen{}).Interface() }, nil)
	}
	add("IRIs-as-item", func() any { g := &universe.Gen{}; return ap.IRIs{g.IRI(), g.IRI()} }, nil)
	for _, k := range cases {
		for _, entry := range []string{"method", "binary", "pkg"} {
			k, entry := k, entry
			if (entry == "pkg") != (k.zero == nil) {
				continue
			}
			class := "C03|gob-rt-scalar|" + strings.Fields(k.name)[0]
			c.Do(class, func() string { return entry + " gob pair of " + k.name }, func(t *engine.T) {
				x := k.mk()
				want := canon.Of(x, canon.Gob)
				t.State(engine.Hash64("scalar", entry, k.name), true)
				if _, ok := x.(encoding.BinaryMarshaler); entry == "binary" && !ok {
					return // the type has no binary pair
				}
				b, err := gobEncode(entry, x)
				t.Ops(1)
				if err != nil || len(b) == 0 {
					t.Fail(class+"|encode-failed", "%s encode: %d bytes, %v for %s", entry, len(b), err, want)
					return
				}
				var got *canon.Node
				if k.zero == nil {
					it, err := ap.GobDecode(b)
					if err != nil {
						t.Fail(class+"|decode-error", "%v", err)
						return
					}
					got = canon.Of(it, canon.Gob)
					// the same concrete type: an IRI list stays an IRI list, an item list an item list
					if tw, tg := universeType(x), universeType(it); it != nil && tw != tg {
						t.Fail(class+"|concrete-type-changed", "a %s came back as a %s", tw, tg)
					}
				} else {
					z := k.zero()
					var derr error
					if entry == "method" {
						derr = z.(gob.GobDecoder).GobDecode(b)
					} else if u, ok := z.(encoding.BinaryUnmarshaler); ok {
						derr = u.UnmarshalBinary(b)
					} else {
						return // the type has no binary pair
					}
					if derr != nil {
						t.Fail(class+"|decode-error", "%v", derr)
						return
					}
					got = canon.Of(z, canon.Gob)
				}
				t.Ops(1)
				for _, d := range canon.Diff(want, got) {
					t.Fail("C03|gob-rt-scalar|"+deltaKey(strings.Fields(k.name)[0], d), "%s via %s", d, entry)
				}
			})
		}
	}
}
