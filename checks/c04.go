package checks

import (
	"bytes"
	"encoding"
	"encoding/gob"
	"encoding/hex"
	"encoding/json"
	"fmt"
	"go/ast"
	"go/parser"
	"go/token"
	"os"
	"path/filepath"
	"reflect"
	"runtime"
	"runtime/metrics"
	"sort"
	"strings"
	"time"

	ap "github.com/go-ap/activitypub"

	"verif/internal/engine"
	"verif/internal/universe"
)

// C04 — decoders are total: no input makes them panic, hang or blow the stack (DESIGN.md §3 C04, reading D10).
//
// Deviation-bounded exploration of decoder inputs: every byte string of length <= 1 (thorough: 2) at every decode entry point;
// every well-formed JSON / gob seed, every truncation of it, and every single token (JSON) / byte (gob) deviation; each decode
// runs in a worker process under recover, a hang watchdog and an allocation budget; every returned value is then inspected,
// compared, re-encoded in both codecs and formatted.

type c04Entry struct {
	name   string
	codec  string // json | text | gob
	owner  string // struct/type name ("" for the package functions)
	decode func(b []byte) (any, error)
}

var c04Types = []any{
	ap.Object{}, ap.Actor{}, ap.Activity{}, ap.IntransitiveActivity{}, ap.Question{}, ap.Collection{}, ap.CollectionPage{}, ap.OrderedCollection{},
	ap.OrderedCollectionPage{}, ap.Place{}, ap.Profile{}, ap.Relationship{}, ap.Tombstone{}, ap.Link{},
	ap.Source{}, ap.PublicKey{}, ap.Endpoints{}, ap.IRI(""), ap.IRIs{}, ap.ItemCollection{}, ap.NaturalLanguageValues{}, ap.LangRefValue{}, ap.LangRef(""),
	ap.Content{}, ap.MimeType(""), ap.ActivityVocabularyType(""),
}

func c04Entries() []c04Entry {
	es := []c04Entry{
		{"UnmarshalJSON", "json", "", func(b []byte) (any, error) { return ap.UnmarshalJSON(b) }},
		{"GobDecode", "gob", "", func(b []byte) (any, error) { return ap.GobDecode(b) }},
	}
	for _, z := range c04Types {
		t := reflect.TypeOf(z)
		pt := reflect.PointerTo(t)
		name := t.Name()
		mk := func() reflect.Value { return reflect.New(t) }
		if pt.Implements(reflect.TypeOf((*json.Unmarshaler)(nil)).Elem()) {
			es = append(es, c04Entry{"(*" + name + ").UnmarshalJSON", "json", name, func(b []byte) (any, error) {
				p := mk()
				return p.Interface(), p.Interface().(json.Unmarshaler).UnmarshalJSON(b)
			}})
		}
		if pt.Implements(reflect.TypeOf((*encoding.TextUnmarshaler)(nil)).Elem()) {
			es = append(es, c04Entry{"(*" + name + ").UnmarshalText", "text", name, func(b []byte) (any, error) {
				p := mk()
				return p.Interface(), p.Interface().(encoding.TextUnmarshaler).UnmarshalText(b)
			}})
		}
		if pt.Implements(reflect.TypeOf((*encoding.BinaryUnmarshaler)(nil)).Elem()) {
			es = append(es, c04Entry{"(*" + name + ").UnmarshalBinary", "gob", name, func(b []byte) (any, error) {
				p := mk()
				return p.Interface(), p.Interface().(encoding.BinaryUnmarshaler).UnmarshalBinary(b)
			}})
		}
		if pt.Implements(reflect.TypeOf((*gob.GobDecoder)(nil)).Elem()) {
			es = append(es, c04Entry{"(*" + name + ").GobDecode", "gob", name, func(b []byte) (any, error) {
				p := mk()
				return p.Interface(), p.Interface().(gob.GobDecoder).GobDecode(b)
			}})
		}
	}
	return es
}

var c04AllocSample = []metrics.Sample{{Name: "/gc/heap/allocs:bytes"}}

func c04Allocated() uint64 {
	metrics.Read(c04AllocSample)
	if c04AllocSample[0].Value.Kind() == metrics.KindUint64 {
		return c04AllocSample[0].Value.Uint64()
	}
	return 0
}

// c04Try runs one decode and the follow-up operations on what it returns, reporting panics and allocation blow-ups.
func c04Try(t *engine.T, e c04Entry, kind string, in []byte) {
	t.Step(func() string {
		return fmt.Sprintf("%s input (%s, %d bytes) hex=%s", e.name, kind, len(in), hex.EncodeToString(trim(in, 256)))
	})
	key := func(sym string) string { return "C04|" + e.name + "|" + kind + "|" + sym }
	chain := kind == "seed" || strings.HasPrefix(kind, "token")
	data := append([]byte(nil), in...) // decoders may keep or scribble on their input
	var v any
	before := c04Allocated()
	func() {
		defer func() {
			if r := recover(); r != nil {
				t.Fail(key("panic"), "%s panicked: %v\ninput (%d bytes): %q\nhex: %s", e.name, r, len(in), trim(in, 300), hex.EncodeToString(trim(in, 300)))
			}
		}()
		v, _ = e.decode(data)
	}()
	if d := c04Allocated() - before; d > 64<<20+4096*uint64(len(in)) {
		t.Fail(key("allocation-blow-up"), "%s allocated %d bytes for a %d byte input\nhex: %s", e.name, d, len(in), hex.EncodeToString(trim(in, 300)))
	}
	t.Ops(1)
	if v == nil {
		return
	}
	func() {
		defer func() {
			if r := recover(); r != nil {
				t.Fail(key("follow-up-panic"), "an operation on the value %s returned panicked: %v\ninput: %q\nhex: %s", e.name, r, trim(in, 300), hex.EncodeToString(trim(in, 300)))
			}
		}()
		if it, ok := v.(ap.Item); ok {
			if rv := reflect.ValueOf(it); rv.Kind() == reflect.Pointer && rv.IsNil() {
				return
			}
			ap.IsNil(it)
			ap.NotEmpty(it)
			ap.ItemsEqual(it, it)
			// codec chains: what the library writes for a decoded value is itself decoder input, in both codecs
			// (for seeds and token-level deviations; byte-level deviations and truncations only re-encode)
			j, jerr := ap.MarshalJSON(it)
			g, gerr := ap.GobEncode(it)
			t.Ops(5)
			if chain {
				if jerr == nil && len(j) > 0 {
					ap.UnmarshalJSON(j)
				}
				if gerr == nil && len(g) > 0 {
					if back, err := ap.GobDecode(g); err == nil && back != nil {
						ap.MarshalJSON(back)
					}
				}
				t.Ops(3)
			}
		}
		isPtr := reflect.TypeOf(v).Kind() == reflect.Pointer
		if m, ok := v.(json.Marshaler); ok {
			if j, err := m.MarshalJSON(); err == nil && len(j) > 0 && chain && isPtr {
				if u, ok := reflect.New(reflect.TypeOf(v).Elem()).Interface().(json.Unmarshaler); ok {
					u.UnmarshalJSON(j)
				}
			}
		}
		if g, ok := v.(gob.GobEncoder); ok {
			if b, err := g.GobEncode(); err == nil && len(b) > 0 && chain && isPtr {
				if d, ok := reflect.New(reflect.TypeOf(v).Elem()).Interface().(gob.GobDecoder); ok {
					d.GobDecode(b)
				}
			}
		}
		_ = fmt.Sprintf("%s %v %q %+v", v, v, v, v)
		// every formatting verb (a Formatter that forwards an unknown verb to itself recurses until the stack is gone)
		if chain {
			_ = fmt.Sprintf("%#v %T %x %X %d %b %o %c %U %t %e %g %08.3f %p %10s %-10q % x", v, v, v, v, v, v, v, v, v, v, v, v, v, v, v, v, v)
			c04FormatLeaves(v)
		}
		t.Ops(3)
	}()
}

func trim(b []byte, n int) []byte {
	if len(b) > n {
		return b[:n]
	}
	return b
}

// ---- seeds

func c04JSONSeeds(quick bool) (map[string][][]byte, [][]byte) {
	byOwner := map[string][][]byte{}
	var all [][]byte
	add := func(owner string, b []byte) {
		byOwner[owner] = append(byOwner[owner], b)
		all = append(all, b)
	}
	for i := range universe.Structs {
		s := &universe.Structs[i]
		doc := func(r universe.Recipe) {
			rv := reflect.ValueOf(r.Build())
			if rv.Kind() == reflect.Pointer {
				rv = rv.Elem()
			}
			for _, expanded := range []bool{false, true} {
				if b, err := json.Marshal(c05WriteStruct(rv, expanded)); err == nil {
					add(s.Name, b)
				}
			}
		}
		universe.Level0(s, doc)
		universe.Level1(s, universe.JSON, quick, doc)
		if !quick {
			universe.Saturated(s, universe.JSON, doc)
		}
	}
	files, _ := filepath.Glob(repoDir() + "/tests/mocks/*.json")
	sort.Strings(files)
	for _, f := range files {
		if raw, err := os.ReadFile(f); err == nil {
			var compact any
			if json.Unmarshal(raw, &compact) == nil {
				if b, err := json.Marshal(compact); err == nil {
					add("mock", b)
				}
			}
		}
	}
	for _, d := range []string{`{"type":"Person","id":"https://example.com/a","endpoints":{}}`, `{"type":"Person","endpoints":[],"publicKey":{},"streams":[]}`,
		`{"type":"Note","source":{},"tag":[],"to":[null],"nameMap":{},"name":""}`, `{"type":"Like","object":{},"actor":{"endpoints":{}}}`,
		`{"type":"OrderedCollectionPage","orderedItems":[],"partOf":{}}`, `{"type":"Question","oneOf":[],"anyOf":[{}],"closed":null}`, `{"type":"Link"}`, `{"type":"Mention","href":{"id":"https://example.com/h"},"rel":["https://example.com/r"]}`,
		`{"type":"Place"}`, `{"type":"Tombstone","deleted":""}`, `{"type":"Profile","describes":{}}`, `{}`, `[]`, `[{}]`, `[[],{}]`} {
		add("degenerate", []byte(d))
	}
	// interacting members: a term together with its Map form (the plain text equal to the first, a middle, the last or no entry),
	// lists mixing short and long IRIs with repeats, the same identity in several addressing lists, long lists
	for _, term := range []string{"name", "summary", "content", "preferredUsername"} {
		for n := 1; n <= 3; n++ {
			tags := []string{"en", "fr", "de"}[:n]
			for plain := -1; plain <= n; plain++ {
				var m []string
				for i, tg := range tags {
					m = append(m, fmt.Sprintf("%q:%q", tg, fmt.Sprintf("text %d", i)))
				}
				p := "other text"
				if plain >= 0 && plain < n {
					p = fmt.Sprintf("text %d", plain)
				} else if plain == n {
					p = ""
				}
				add("interaction", []byte(fmt.Sprintf(`{"type":"Person","id":"https://example.com/p",%q:%q,%q:{%s}}`, term, p, term+"Map", strings.Join(m, ","))))
				add("interaction", []byte(fmt.Sprintf(`{"type":"Note","source":{"content":%q,"contentMap":{%s},"mediaType":"text/plain"}}`, p, strings.Join(m, ","))))
			}
		}
	}
	short, long70, long300 := `"https://example.com/a"`, `"https://example.com/`+strings.Repeat("b", 70)+`"`, `"https://example.com/`+strings.Repeat("c", 300)+`"`
	for _, l := range []string{short + "," + long70, long70 + "," + short, long70 + "," + long70 + "," + short + "," + long300 + "," + short, long300 + "," + long70 + "," + long300} {
		add("interaction", []byte(`{"type":"Note","id":`+long70+`,"to":[`+l+`],"cc":[`+l+`],"attributedTo":`+long300+`}`))
		add("interaction", []byte(`{"type":"OrderedCollection","id":`+short+`,"orderedItems":[`+l+`],"totalItems":3}`))
		add("interaction", []byte(`[`+l+`]`))
	}
	add("interaction", []byte(`{"type":"Create","to":["https://example.com/a"],"cc":["https://example.com/a"],"bto":["https://example.com/a"],"bcc":["https://example.com/a"],"audience":["https://example.com/a"],"actor":"https://example.com/a","object":{"id":"https://example.com/a","to":["https://example.com/a"]}}`))
	for _, n := range []int{17, 33, 65} {
		var l []string
		for i := 0; i < n; i++ {
			switch {
			case i%7 == 3:
				l = append(l, `{"type":"Note","name":"anonymous"}`)
			case i%7 == 5:
				l = append(l, `{"type":"Note","id":"https://example.com/1"}`)
			case i%11 == 10:
				l = append(l, `null`)
			default:
				l = append(l, fmt.Sprintf(`"https://example.com/%d"`, i%20))
			}
		}
		add("interaction", []byte(`{"type":"Collection","items":[`+strings.Join(l, ",")+`],"to":[`+strings.Join(l, ",")+`]}`))
		add("interaction", []byte(`[`+strings.Join(l, ",")+`]`))
	}
	// two members with the SAME id in one list (the decoder compares them while de-duplicating), the second with a nested member
	// the first lacks, and the other way round - for every kind of nested or list-valued member
	{
		variants := []string{`"endpoints":{"sharedInbox":"https://example.com/inbox"}`, `"endpoints":{}`, `"endpoints":{"uploadMedia":{"id":"https://example.com/up","type":"Note"}}`,
			`"publicKey":{"id":"https://example.com/k","owner":"https://example.com/u/1","publicKeyPem":"x"}`, `"publicKey":{}`, `"source":{"content":"x","mediaType":"text/plain"}`,
			`"replies":{"id":"https://example.com/r","type":"Collection","items":["https://example.com/1"]}`, `"icon":{"type":"Image","url":"https://example.com/i.png"}`,
			`"nameMap":{"en":"a","fr":"b"}`, `"name":"a"`, `"streams":["https://example.com/s"]`, `"url":[{"type":"Link","href":"https://example.com/h"},"https://example.com/h2"]`,
			`"inbox":{"id":"https://example.com/in","type":"OrderedCollection","orderedItems":[{"type":"Like"}]}`, `"tag":[{"type":"Mention","href":"https://example.com/m"}]`, `"startTime":"2021-01-01T00:00:00Z"`}
		for _, typ := range []string{"Person", "Note", "Like", "OrderedCollection"} {
			for i, a := range variants {
				b := variants[(i+1)%len(variants)]
				one := fmt.Sprintf(`{"id":"https://example.com/u/1","type":%q,%s}`, typ, a)
				two := fmt.Sprintf(`{"id":"https://example.com/u/1","type":%q,%s}`, typ, b)
				bare := fmt.Sprintf(`{"id":"https://example.com/u/1","type":%q}`, typ)
				add("interaction", []byte(`{"type":"Create","to":[`+one+`,`+two+`],"cc":[`+bare+`,`+one+`,"https://example.com/u/1"],"tag":[`+two+`,`+bare+`]}`))
				add("interaction", []byte(`[`+one+`,`+bare+`,`+two+`]`))
			}
		}
	}
	// members of DIFFERENT kinds in one list (the decoder compares every new member with the ones already read): every ordered pair
	// of kinds, with different ids and with the same id
	{
		kinds := []string{`"https://example.com/x%d"`, `{"type":"Note","id":"https://example.com/x%d","name":"n"}`, `{"type":"Person","id":"https://example.com/x%d"}`,
			`{"type":"Like","id":"https://example.com/x%d","object":"https://example.com/o"}`, `{"type":"Collection","id":"https://example.com/x%d","items":["https://example.com/i"]}`,
			`{"type":"OrderedCollectionPage","id":"https://example.com/x%d","partOf":"https://example.com/c"}`, `{"type":"Mention","id":"https://example.com/x%d","href":"https://example.com/h"}`,
			`{"type":"Question","id":"https://example.com/x%d","oneOf":[{"type":"Note","name":"a"}]}`, `{"type":"Tombstone","id":"https://example.com/x%d","formerType":"Note"}`,
			`{"id":"https://example.com/x%d"}`, `{"type":"Place","id":"https://example.com/x%d","latitude":1.5}`, `["https://example.com/x%d"]`}
		for i, a := range kinds {
			for j, b := range kinds {
				for _, same := range []bool{false, true} {
					ida, idb := 1, 2
					if same {
						idb = 1
					}
					_ = j
					pair := fmt.Sprintf(a, ida) + "," + fmt.Sprintf(b, idb)
					add("interaction", []byte(`{"type":"Create","id":"https://example.com/c`+fmt.Sprint(i)+`","to":[`+pair+`],"object":[`+pair+`]}`))
				}
			}
		}
	}
	// a term beside its Map form where the map says the same text again, also under "und" / "-" / "" and in last position
	for _, term := range []string{"name", "summary", "content", "preferredUsername"} {
		for _, m := range []string{`"en":"Hello","und":"Hello"`, `"und":"Hello","en":"Hello"`, `"-":"Hello","en":"Hello","":"Hello"`, `"en":"Hello","fr":"Hello","und":"Hello","-":"Hello"`, `"und":"Hello"`} {
			add("interaction", []byte(fmt.Sprintf(`{"type":"Person",%q:"Hello",%q:{%s}}`, term, term+"Map", m)))
			add("interaction", []byte(fmt.Sprintf(`{"type":"Note",%q:{%s},%q:{%s}}`, term, m, term+"Map", m)))
		}
	}
	// language maps whose keys are BCP 47 tags with several subtags, singletons, private use, and malformed tags
	for _, tags := range []string{`"zh-Hant-TW":"a","en-x-pirate":"b"`, `"de-DE-u-co-phonebk":"a","x-klingon":"b","es-419":"c"`, `"a-b-c-d-e-f-g-h":"x","-":"y","--":"z","en-":"w","-en":"v","":"u"`,
		`"und":"a","UND":"b","en_US":"c","EN-us":"d"`, `"zh-Hant-TW":"only"`} {
		for _, term := range []string{"name", "summary", "content", "preferredUsername"} {
			add("interaction", []byte(fmt.Sprintf(`{"type":"Person","id":"https://example.com/p",%q:{%s}}`, term+"Map", tags)))
			add("interaction", []byte(fmt.Sprintf(`{"type":"Note",%q:{%s}}`, term, tags)))
		}
		add("interaction", []byte(fmt.Sprintf(`{"type":"Note","source":{"contentMap":{%s},"mediaType":"text/plain"}}`, tags)))
	}
	// odd shapes: every term of the vocabulary x values of the wrong JSON kind
	terms := map[string]bool{}
	for i := range universe.Structs {
		for _, f := range universe.Structs[i].Fields {
			terms[f.Term] = true
			if f.Kind == universe.KNLV {
				terms[f.Term+"Map"] = true
			}
		}
	}
	for _, n := range universe.Nested {
		for _, f := range n.Fields {
			terms[f.Term] = true
		}
	}
	var ts []string
	for k := range terms {
		ts = append(ts, k)
	}
	sort.Strings(ts)
	deepA, deepO := strings.Repeat("[", 400)+strings.Repeat("]", 400), strings.Repeat(`{"a":`, 400)+"1"+strings.Repeat("}", 400)
	odd := []string{`"x"`, `""`, `7`, `1e999`, `-0`, `1.5`, `true`, `null`, `{}`, `[]`, `[[]]`, `[[["x"]]]`, `{"type":[]}`, `{"type":"Note","id":7}`, `[{"type":"Person"},3,null,"https://example.com/x"]`,
		`{"en":1}`, `{"":""}`, `[null]`, `"\ud800"`, deepA, deepO}
	types := []string{"Note", "Person", "Like", "Question", "OrderedCollectionPage", "Place", "Tombstone", "Mention", "Relationship", "Profile", ""}
	for ti, term := range ts {
		for vi, v := range odd {
			tn := types[(ti+vi)%len(types)]
			doc := fmt.Sprintf(`{"id":"https://example.com/1","type":%q,%q:%s}`, tn, term, v)
			if vi >= 19 && ti%9 != 0 {
				continue // the two 400-deep values on every 9th term only
			}
			add("odd", []byte(doc))
		}
	}
	// the same values of the wrong kind (and objects that decode to nothing) INSIDE the nested structures, where their members are read
	oddNested := append(append([]string{}, odd[:19]...), `{"id":""}`, `{"foo":1}`, `{"type":"Owner","id":"https://example.com/x"}`, `{"type":"Person"}`, `[{}]`, `{"id":"https://example.com/x"}`)
	for _, host := range []struct{ term, typ, st string }{{"publicKey", "Person", "PublicKey"}, {"endpoints", "Service", "Endpoints"}, {"source", "Note", "Source"}} {
		for _, n := range universe.Nested {
			if n.Name != host.st {
				continue
			}
			for _, f := range n.Fields {
				for _, v := range oddNested {
					add("odd-nested", []byte(fmt.Sprintf(`{"id":"https://example.com/1","type":%q,%q:{%q:%s}}`, host.typ, host.term, f.Term, v)))
				}
			}
		}
	}
	return byOwner, all
}

var c04ScalarSeeds = []string{`{"zh-Hant-TW":"a","en-x-pirate":"b","de-DE-u-co-phonebk":"c"}`, `{"a-b-c-d-e":"x","--":"y","en-":"z"}`, `zh-Hant-TW`, `"en-x-pirate"`, `"text"`, `"https://example.com/a"`, `["https://example.com/a","https://example.com/b"]`, `{"en":"a","fr":"b"}`, `{"-":"x"}`,
	`{"content":"x","mediaType":"text/plain"}`, `{"contentMap":{"en":"x"},"mediaType":"text/plain"}`, `{"id":"https://example.com/k","owner":"https://example.com/o","publicKeyPem":"p"}`,
	`{"sharedInbox":"https://example.com/s","uploadMedia":{"id":"https://example.com/u","type":"Note"}}`, `42`, `-1`, `1e999`, `true`, `null`, `[]`, `{}`, `[[]]`, `[{"en":"x"},"y",3]`, `"é\n\""`,
	`hello`, `"unterminated`, `en`, `"en"`, `text/html`, `"`, `""`, `"a"`, `{"en":{"deep":1}}`, `{"type":"Note","id":"https://example.com/n"}`}

var c04Tokens = []string{`{`, `}`, `[`, `]`, `,`, `:`, `"x"`, `""`, `0`, `-1e999`, `true`, `null`, `"https://example.com/x"`, `{"type":"Note"}`}

// c04Lex splits a JSON text into lexical tokens (strings, numbers/literals, punctuation).
func c04Lex(b []byte) [][2]int {
	var out [][2]int
	for i := 0; i < len(b); {
		c := b[i]
		switch {
		case c == ' ' || c == '\n' || c == '\t' || c == '\r':
			i++
		case c == '"':
			j := i + 1
			for j < len(b) && b[j] != '"' {
				if b[j] == '\\' {
					j++
				}
				j++
			}
			if j < len(b) {
				j++
			}
			if j > len(b) {
				j = len(b)
			}
			out = append(out, [2]int{i, j})
			i = j
		case strings.ContainsRune("{}[],:", rune(c)):
			out = append(out, [2]int{i, i + 1})
			i++
		default:
			j := i
			for j < len(b) && !strings.ContainsRune("{}[],: \n\t\r\"", rune(b[j])) {
				j++
			}
			if j == i {
				j++
			}
			out = append(out, [2]int{i, j})
			i = j
		}
	}
	return out
}

// c04JSONDeviations calls fn for the seed, every truncation and every single-token deviation (pairs if double).
func c04JSONDeviations(seed []byte, truncStep int, double bool, tokens []string, fn func(kind string, in []byte)) {
	fn("seed", seed)
	for n := 0; n < len(seed); n += truncStep {
		fn("truncated", seed[:n])
	}
	toks := c04Lex(seed)
	if len(toks) > 200 {
		// very long seeds (the 400-deep documents): deviations at the first and last 12 tokens and at 12 tokens spread over the middle
		var sel [][2]int
		for i := 0; i < 12; i++ {
			sel = append(sel, toks[i], toks[len(toks)-1-i], toks[12+i*(len(toks)-24)/12])
		}
		toks = sel
	}
	apply := func(b []byte, tk [2]int, repl string) []byte {
		out := append([]byte{}, b[:tk[0]]...)
		out = append(out, repl...)
		return append(out, b[tk[1]:]...)
	}
	for _, tk := range toks {
		fn("token-deleted", apply(seed, tk, ""))
		for _, r := range tokens {
			fn("token-replaced", apply(seed, tk, r))
		}
	}
	if double {
		for i := len(toks) - 1; i >= 0; i-- {
			for j := i - 1; j >= 0; j-- {
				for _, r1 := range []string{"", `{`, `[`, `null`, `"x"`} {
					for _, r2 := range []string{"", `}`, `]`, `:`, `0`} {
						fn("two-tokens", apply(apply(seed, toks[i], r1), toks[j], r2))
					}
				}
			}
		}
	}
}

func c04GobDeviations(seed []byte, allBytes bool, fn func(kind string, in []byte)) {
	fn("seed", seed)
	for n := 0; n < len(seed); n++ {
		fn("truncated", seed[:n])
	}
	for i := range seed {
		vals := []byte{0x00, 0x01, 0x7f, 0x80, 0xff, seed[i] + 1, seed[i] - 1}
		if allBytes {
			vals = vals[:0]
			for v := 0; v < 256; v++ {
				vals = append(vals, byte(v))
			}
		}
		for _, v := range vals {
			if v == seed[i] {
				continue
			}
			m := append([]byte{}, seed...)
			m[i] = v
			fn("byte-replaced", m)
		}
	}
}

func init() {
	engine.Register(&engine.Check{
		ID: "C04", Name: "decoders-total", Level: "fault_enumeration",
		Rule: "entry points = the package decoders and every UnmarshalJSON / UnmarshalText / UnmarshalBinary / GobDecode method found by reflection on 26 exported types (audited against the tree's AST); " +
			"inputs: every byte string of length 0, 1 (thorough: 2) at every entry point; JSON seeds (universe documents from the independent writer in two shape variants, the mock documents, every vocabulary term x " +
			"21 values of the wrong kind incl. 400-deep nesting and huge numbers, 29 scalar texts) with every truncation and every single-token deviation over a 14-token alphabet (for the 400-deep seeds: every 41st truncation and deviations at 36 token positions) (thorough: token pairs on the 200 shortest seeds); " +
			"gob seeds (encodings of the universe through every encoder) with every truncation and every position x byte values {00,01,7f,80,ff,b+1,b-1} (thorough: all 256); " +
			"oracle: no panic, no fatal crash, per-decode hang watchdog, allocation budget 64 MiB + 4 KiB/byte, and the follow-up operations on any returned value do not panic; non-trivial = input that differs from its seed",
		Assumptions: []string{"reading D10: 'time and memory proportional to the input' is checked as no hang (30 s watchdog per decode, normal cost microseconds) and no allocation blow-up",
			"inputs are deviations of bounded size from well-formed seeds, not all byte strings"},
		Bound: func(tier string) string {
			if tier == "thorough" {
				return "byte strings of length <= 2; all seeds x all truncations x single deviations; token pairs on the 200 shortest JSON seeds; gob positions x 256 values; seeds include term+termMap together (plain text equal to the first/middle/last/no entry), long and short IRIs mixed with repeats, one identity in all addressing lists, lists of 17/33/65 entries; language-map keys with several subtags, singletons, private use and malformed tags; codec chains (what the library writes for a decoded value is decoded again, JSON and gob, package functions and methods) for seeds and token-level deviations; families added after round 5: DESIGN.md 8.11"
			}
			return "byte strings of length <= 1; level-0/1(q) seeds x truncations (every byte) x single token deviations over 7 tokens; gob positions x 7 values; seeds include term+termMap together (plain text equal to the first/middle/last/no entry), long and short IRIs mixed with repeats, one identity in all addressing lists, lists of 17/33/65 entries; language-map keys with several subtags, singletons, private use and malformed tags; codec chains (what the library writes for a decoded value is decoded again, JSON and gob, package functions and methods) for seeds and token-level deviations; families added after round 5: DESIGN.md 8.11"
		},
		Pre:           c04Audit,
		WorkerVMemKB:  24 << 20, // 24 GiB of address space per worker: far above normal use, far below the machine
		DeadlineQuick: 6 * time.Minute, DeadlineThorough: 60 * time.Minute,
		Run: c04Run,
	})
}

func c04Run(c *engine.Ctx) {
	entries := c04Entries()
	quick := c.Quick()
	// 1. short byte strings
	for _, e := range entries {
		e := e
		c.Do("C04|"+e.name, func() string { return e.name + " on every byte string of length 0 and 1" }, func(t *engine.T) {
			c04Try(t, e, "len0", nil)
			c04Try(t, e, "len0", []byte{})
			for b := 0; b < 256; b++ {
				c04Try(t, e, "len1", []byte{byte(b)})
			}
			t.AddEvals(257, 257)
		})
		if !quick {
			for hi := 0; hi < 256; hi++ {
				hi := hi
				c.Do("C04|"+e.name, func() string { return fmt.Sprintf("%s on every 2-byte string starting with 0x%02x", e.name, hi) }, func(t *engine.T) {
					for lo := 0; lo < 256; lo++ {
						c04Try(t, e, "len2", []byte{byte(hi), byte(lo)})
					}
					t.AddEvals(255, 256)
				})
			}
		}
	}
	// 1b. lexical space of the scalar properties: every string of length <= 3 over the characters instants, durations and
	// numbers are made of, as the value of every instant / duration / number / boolean property (the parsers of these values -
	// some of them in dependencies - see exactly these strings)
	{
		alphabet := []byte("-+PT1.SZ:e")
		var words []string
		var gen func(cur []byte)
		gen = func(cur []byte) {
			if len(cur) > 0 {
				words = append(words, string(cur))
			}
			if len(cur) == 3 {
				return
			}
			for _, ch := range alphabet {
				gen(append(append([]byte{}, cur...), ch))
			}
		}
		gen(nil)
		words = append(words, "P1Y2M3DT4H5M6.5S", "-P1D", "PT9999999999999999999S", "P99999999999999999999Y", "2021-03-04T05:06:07+25:00", "0000-00-00T00:00:00Z", "1e400", "-0", "0x10", " 1", "1 ")
		top := c04Entries()[0]
		for i := range universe.Structs {
			s := &universe.Structs[i]
			for _, f := range s.Fields {
				switch f.Kind {
				case universe.KTime, universe.KDuration, universe.KFloat, universe.KInt, universe.KUint, universe.KBool:
				default:
					continue
				}
				if s.Name != "Object" && universe.ByName("Object").FieldByTerm(f.Term) != nil {
					continue // object-core properties once, on the plain object
				}
				s, f := s, f
				c.Do("C04|UnmarshalJSON", func() string {
					return fmt.Sprintf("UnmarshalJSON on {type:%s, %s:<every string of length <= 3 over %q, as JSON string and as bare token where that is valid JSON>}", s.SpecificName(), f.Term, alphabet)
				}, func(t *engine.T) {
					n := int64(0)
					for _, w := range words {
						q, _ := json.Marshal(w)
						c04Try(t, top, "lexical", []byte(fmt.Sprintf(`{"type":%q,%q:%s}`, s.SpecificName(), f.Term, q)))
						n++
						if json.Valid([]byte(w)) {
							c04Try(t, top, "lexical", []byte(fmt.Sprintf(`{"type":%q,%q:%s}`, s.SpecificName(), f.Term, w)))
							n++
						}
					}
					t.AddEvals(n-1, n-1)
				})
			}
		}
	}
	// 1c. numbers at the edges of the integer types (negative, 2^26, 2^63-1, 2^64-1, beyond, fractions) as the value of every
	// number property of a SATURATED document: a count that is believed next to the members it counts sizes an allocation
	{
		edges := []string{"-1", "-9223372036854775808", "67108864", "9223372036854775807", "18446744073709551615", "1e19", "1e308", "-1e308", "0.5", "-0.5", "1e-320"}
		top := c04Entries()[0]
		for i := range universe.Structs {
			s := &universe.Structs[i]
			var docs [][]byte
			universe.Saturated(s, universe.JSON, func(r universe.Recipe) {
				if len(docs) < 2 {
					if b, err := ap.MarshalJSON(r.Item()); err == nil && len(b) > 0 {
						docs = append(docs, b)
					}
				}
			})
			for _, f := range s.Fields {
				switch f.Kind {
				case universe.KFloat, universe.KInt, universe.KUint:
				default:
					continue
				}
				s, f := s, f
				c.Do("C04|UnmarshalJSON", func() string {
					return fmt.Sprintf("UnmarshalJSON on a saturated %s document whose %s is each of %v", s.SpecificName(), f.Term, edges)
				}, func(t *engine.T) {
					n := int64(0)
					for _, doc := range docs {
						var m map[string]json.RawMessage
						if json.Unmarshal(doc, &m) != nil {
							continue
						}
						for _, e := range edges {
							m[f.Term] = json.RawMessage(e)
							b, err := json.Marshal(m)
							if err != nil {
								continue
							}
							c04Try(t, top, "numeric-edge", b)
							n++
						}
					}
					if n > 0 {
						t.AddEvals(n-1, n-1)
					}
				})
			}
		}
	}
	// 1d. decoding cost grows with the input, not with 2^depth: an array holding the SAME chain twice (a value of every type nested
	// in itself through each of its item properties) makes the decoder compare the two members when it builds the list. The cost is
	// measured in allocations at depth 8 and 14: a linear decoder needs under twice as many, one that compares with doubled work
	// at every level 64 times as many (bound: 8x). A 4 KiB document of depth 36 would otherwise take days.
	{
		top := c04Entries()[0]
		for i := range universe.Structs {
			s := &universe.Structs[i]
			if s.Name == "Link" {
				continue
			}
			c.Do("C04|UnmarshalJSON", func() string {
				return fmt.Sprintf("UnmarshalJSON on {type:Note, tag:[chain, chain]} with chains of 8 and 14 %s documents through each item property", s.SpecificName())
			}, func(t *engine.T) {
				n := int64(0)
				for _, f := range s.ItemFields() {
					if f.Term == "id" || f.Term == "type" {
						continue
					}
					doc := func(depth int) []byte {
						var b bytes.Buffer
						for d := 0; d < depth; d++ {
							fmt.Fprintf(&b, `{"id":"https://example.com/chain/%d","type":%q,%q:`, d, s.SpecificName(), f.Term)
						}
						b.WriteString(`"https://example.com/leaf"`)
						b.WriteString(strings.Repeat("}", depth))
						return []byte(`{"type":"Note","tag":[` + b.String() + `,` + b.String() + `]}`)
					}
					cost := func(depth int) uint64 {
						in := doc(depth)
						var before, after runtime.MemStats
						runtime.ReadMemStats(&before)
						func() {
							defer func() { recover() }()
							top.decode(append([]byte(nil), in...))
						}()
						runtime.ReadMemStats(&after)
						return after.Mallocs - before.Mallocs
					}
					t.Step(func() string { return "equal chains through " + f.Term })
					// what is done with a decoded value afterwards (both encoders, formatting) must not double its work per level either
					after := func(depth int, op func(ap.Item)) uint64 {
						it, err := ap.UnmarshalJSON(doc(depth))
						if err != nil || it == nil {
							return 0
						}
						var before, after runtime.MemStats
						runtime.ReadMemStats(&before)
						func() {
							defer func() { recover() }()
							op(it)
						}()
						runtime.ReadMemStats(&after)
						return after.Mallocs - before.Mallocs
					}
					slow := false
					for _, o := range []struct {
						name string
						op   func(ap.Item)
					}{{"MarshalJSON", func(it ap.Item) { ap.MarshalJSON(it) }}, {"GobEncode", func(it ap.Item) { ap.GobEncode(it) }},
						{"GobEncode+GobDecode", func(it ap.Item) {
							if g, err := ap.GobEncode(it); err == nil {
								ap.GobDecode(g)
							}
						}}, {"Sprintf", func(it ap.Item) { _ = fmt.Sprintf("%s %v %+v", it, it, it) }}} {
						if b8, b14 := after(8, o.op), after(14, o.op); b14 > 8*b8+5000 {
							slow = true
							t.Fail("C04|UnmarshalJSON|equal-chains|"+s.Name+"|"+f.Term+"|"+o.name+"-super-linear", "%s of the value decoded from a chain of %s documents through %s costs %d allocations at depth 8 and %d at depth 14 (x%d): the cost doubles with every level",
								o.name, s.SpecificName(), f.Term, b8, b14, b14/(b8+1))
						}
					}
					if slow {
						continue
					}
					a8, a14 := cost(8), cost(14)
					if a14 > 8*a8+5000 {
						t.Fail("C04|UnmarshalJSON|equal-chains|"+s.Name+"|"+f.Term+"|super-linear", "decoding an array of two equal chains of %s documents through %s costs %d allocations at depth 8 and %d at depth 14 (x%d): the cost doubles with every level\ninput (depth 8): %s",
							s.SpecificName(), f.Term, a8, a14, a14/(a8+1), doc(8))
					} else {
						c04Try(t, top, "equal-chains", doc(60))
					}
					n += 2
				}
				if n > 0 {
					t.AddEvals(n-1, n-1)
				}
			})
		}
	}
	// 2. JSON seeds
	byOwner, all := c04JSONSeeds(quick)
	shortest := map[string]bool{}
	if !quick {
		sorted := append([][]byte{}, all...)
		sort.Slice(sorted, func(i, j int) bool { return len(sorted[i]) < len(sorted[j]) })
		for i := 0; i < 200 && i < len(sorted); i++ {
			shortest[string(sorted[i])] = true
		}
	}
	jsonBatch := func(e c04Entry, seed []byte) {
		c.Do("C04|"+e.name, func() string {
			return fmt.Sprintf("%s on seed %s, its truncations and single-token deviations", e.name, trim(seed, 200))
		}, func(t *engine.T) {
			n := int64(0)
			step := 1
			if len(seed) > 600 {
				step = 41 // long seeds: every 41st prefix (co-prime with the 5-byte period of the nested documents)
			}
			tokens := c04Tokens
			if quick {
				tokens = []string{`{`, `]`, `,`, `"x"`, `-1e999`, `null`, `{"type":"Note"}`}
			}
			c04JSONDeviations(seed, step, shortest[string(seed)] && e.owner == "", tokens, func(kind string, in []byte) {
				if n&1023 == 1023 && t.Expired() {
					return // the tier deadline passed in the middle of a long case (token pairs): the rest of it is not run
				}
				c04Try(t, e, kind, in)
				n++
			})
			t.AddEvals(n-1, n-1)
		})
	}
	for _, e := range entries {
		if e.codec != "json" && e.codec != "text" {
			continue
		}
		switch {
		case e.owner == "":
			for _, s := range all {
				jsonBatch(e, s)
			}
		case universe.ByName(e.owner) != nil && universe.ByName(e.owner).Family != "nested":
			for _, s := range byOwner[e.owner] {
				jsonBatch(e, s)
			}
			for i, s := range byOwner["odd"] {
				if i%5 == 0 {
					jsonBatch(e, s)
				}
			}
			for _, s := range byOwner["mock"] {
				jsonBatch(e, s)
			}
		default:
			for _, s := range c04ScalarSeeds {
				jsonBatch(e, []byte(s))
			}
			for i, s := range byOwner["Actor"] {
				if i%10 == 0 {
					jsonBatch(e, s)
				}
			}
		}
	}
	// 3. gob seeds
	gobSeeds := map[string][][]byte{}
	var gobAll [][]byte
	for i := range universe.Structs {
		s := &universe.Structs[i]
		enc := func(r universe.Recipe) {
			x := r.Build()
			if b, err := gobEncode("method", x); err == nil && len(b) > 0 {
				gobSeeds[s.Name] = append(gobSeeds[s.Name], b)
				gobAll = append(gobAll, b)
			}
		}
		universe.Level0(s, enc)
		universe.Level1(s, universe.Gob, true, enc)
		if !quick {
			universe.Saturated(s, universe.Gob, enc)
		}
	}
	// degenerate but valid values: empty nested structs, empty and nil-bearing lists, values with only an id
	degenerate := []ap.Item{
		&ap.Actor{ID: "https://example.com/a", Type: ap.PersonType, Endpoints: &ap.Endpoints{}},
		&ap.Actor{ID: "https://example.com/a", Type: ap.PersonType, Streams: ap.ItemCollection{}, PublicKey: ap.PublicKey{ID: "https://example.com/k"}},
		&ap.Object{ID: "https://example.com/o", Type: ap.NoteType, Tag: ap.ItemCollection{}, To: ap.ItemCollection{nil}, Name: ap.NaturalLanguageValues{}, Source: ap.Source{Content: ap.NaturalLanguageValues{}}},
		&ap.Object{ID: "https://example.com/o", Type: ap.NoteType, Attachment: ap.ItemCollection{}, Replies: &ap.Collection{}, URL: ap.IRIs{}},
		&ap.Activity{ID: "https://example.com/x", Type: ap.LikeType, Object: &ap.Object{}, Actor: &ap.Actor{Endpoints: &ap.Endpoints{}}},
		&ap.OrderedCollectionPage{ID: "https://example.com/p", Type: ap.OrderedCollectionPageType, OrderedItems: ap.ItemCollection{}, PartOf: &ap.OrderedCollection{}},
		&ap.Question{ID: "https://example.com/q", Type: ap.QuestionType, OneOf: ap.ItemCollection{}, AnyOf: ap.ItemCollection{&ap.Object{}}},
		&ap.Link{Type: ap.LinkType}, &ap.Place{Type: ap.PlaceType}, &ap.Tombstone{Type: ap.TombstoneType}, &ap.Profile{Type: ap.ProfileType, Describes: &ap.Object{}},
	}
	for _, v := range degenerate {
		if b, err := ap.GobEncode(v); err == nil && len(b) > 0 {
			gobSeeds[structNameOf(v)] = append(gobSeeds[structNameOf(v)], b)
			gobAll = append(gobAll, b)
		}
	}
	scalarValues := []any{ap.IRI("https://example.com/a"), ap.IRIs{"https://example.com/a", "https://example.com/b"}, ap.ItemCollection{ap.IRI("https://example.com/a"), &ap.Object{ID: "https://example.com/o", Type: ap.NoteType}},
		ap.NaturalLanguageValues{{Ref: "en", Value: ap.Content("a")}, {Ref: "-", Value: ap.Content("b")}}, ap.LangRefValue{Ref: "en", Value: ap.Content("x")}, ap.LangRef("en"), ap.Content("text"),
		ap.MimeType("text/html"), ap.ActivityVocabularyType("Note"), ap.Source{MediaType: "text/plain", Content: ap.NaturalLanguageValues{{Ref: "-", Value: ap.Content("s")}}},
		ap.PublicKey{ID: "https://example.com/k", Owner: "https://example.com/o", PublicKeyPem: "pem"}, ap.Endpoints{SharedInbox: ap.IRI("https://example.com/s")}}
	var scalarGob [][]byte
	for _, v := range scalarValues {
		if g, ok := v.(gob.GobEncoder); ok {
			if b, err := g.GobEncode(); err == nil && len(b) > 0 {
				scalarGob = append(scalarGob, b)
			}
		}
		if it, ok := v.(ap.Item); ok {
			if b, err := ap.GobEncode(it); err == nil && len(b) > 0 {
				scalarGob = append(scalarGob, b)
			}
		}
	}
	gobBatch := func(e c04Entry, seed []byte) {
		c.Do("C04|"+e.name, func() string {
			return fmt.Sprintf("%s on gob seed %s…, its truncations and single-byte deviations", e.name, hex.EncodeToString(trim(seed, 48)))
		}, func(t *engine.T) {
			n := int64(0)
			c04GobDeviations(seed, !quick, func(kind string, in []byte) {
				if n&1023 == 1023 && t.Expired() {
					return // the tier deadline passed in the middle of a long case (256 values at every position of a long seed)
				}
				c04Try(t, e, kind, in)
				n++
			})
			t.AddEvals(n-1, n-1)
		})
	}
	for _, e := range entries {
		if e.codec != "gob" {
			continue
		}
		switch {
		case e.owner == "":
			for i, s := range gobAll {
				if quick && i%2 == 1 {
					continue
				}
				gobBatch(e, s)
			}
			for _, s := range scalarGob {
				gobBatch(e, s)
			}
		case universe.ByName(e.owner) != nil && universe.ByName(e.owner).Family != "nested":
			for i, s := range gobSeeds[e.owner] {
				if quick && i%3 != 0 {
					continue
				}
				gobBatch(e, s)
			}
		default:
			for _, s := range scalarGob {
				gobBatch(e, s)
			}
		}
	}
}

// c04Audit lists decode methods of the current tree whose receiver type is not in the entry table.
func c04Audit(p *engine.Parent) error {
	have := map[string]bool{}
	for _, e := range c04Entries() {
		have[e.name] = true
	}
	fset := token.NewFileSet()
	files, _ := filepath.Glob(repoDir() + "/*.go")
	var gaps []string
	found := 0
	for _, f := range files {
		if strings.HasSuffix(f, "_test.go") {
			continue
		}
		af, err := parser.ParseFile(fset, f, nil, 0)
		if err != nil {
			return err
		}
		for _, d := range af.Decls {
			fd, ok := d.(*ast.FuncDecl)
			if !ok || fd.Recv == nil || len(fd.Recv.List) == 0 {
				continue
			}
			n := fd.Name.Name
			if n != "UnmarshalJSON" && n != "UnmarshalText" && n != "UnmarshalBinary" && n != "GobDecode" {
				continue
			}
			found++
			recv := ""
			if st, ok := fd.Recv.List[0].Type.(*ast.StarExpr); ok {
				if id, ok := st.X.(*ast.Ident); ok {
					recv = id.Name
				}
			}
			if recv == "ID" {
				recv = "IRI"
			}
			if !have["(*"+recv+")."+n] {
				gaps = append(gaps, "(*"+recv+")."+n)
			}
		}
	}
	sort.Strings(gaps)
	p.Extra["decode_entry_points"] = len(c04Entries())
	p.Extra["decode_methods_in_tree"] = found
	p.Extra["coverage_gaps"] = gaps
	return nil
}

// c04FormatLeaves formats the language lists, entries, texts and tags found in the fields of a decoded value with every verb.
func c04FormatLeaves(v any) {
	rv := reflect.ValueOf(v)
	for rv.Kind() == reflect.Pointer || rv.Kind() == reflect.Interface {
		if rv.IsNil() {
			return
		}
		rv = rv.Elem()
	}
	const verbs = "%s %v %+v %#v %q %x %X %d %b %o %c %U %t %e %g %p %T"
	all := func(x any) {
		_ = fmt.Sprintf(verbs, x, x, x, x, x, x, x, x, x, x, x, x, x, x, x, x, x)
	}
	switch n := rv.Interface().(type) {
	case ap.NaturalLanguageValues:
		all(n)
		for _, e := range n {
			all(e)
			all(e.Value)
			all(e.Ref)
		}
		return
	case ap.LangRefValue:
		all(n)
		all(n.Value)
		all(n.Ref)
		return
	case ap.Content, ap.LangRef, ap.IRI, ap.IRIs, ap.MimeType, ap.ActivityVocabularyType:
		all(n)
		return
	}
	if rv.Kind() != reflect.Struct {
		return
	}
	for i := 0; i < rv.NumField(); i++ {
		switch n := rv.Field(i).Interface().(type) {
		case ap.NaturalLanguageValues:
			all(n)
			for _, e := range n {
				all(e)
				all(e.Value)
				all(e.Ref)
			}
		case ap.IRI, ap.MimeType, ap.ActivityVocabularyType, ap.LangRef:
			all(n)
		case ap.Source:
			all(n)
			all(n.Content)
		}
	}
}
