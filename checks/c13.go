package checks

import (
	"fmt"
	"strings"

	ap "github.com/go-ap/activitypub"

	"verif/internal/engine"
	"verif/internal/universe"
)

// C13 — collections are insertion-ordered sets under Append/Contains/Remove (DESIGN.md §3 C13).
//
// Explicit-state exploration: every history over {Append(p), Append(p,q), Contains(p), Remove(p)} up to the depth bound on
// each of the six container kinds, from an empty and from a pre-populated container, replayed on a fresh real container in
// lock-step with a reference insertion-ordered set; observers Count, Collection and Contains(p) for every pool item after
// every step. Remove goes through the item-list view (ToItemCollection/OnItemCollection); IRIs has no such view (D7).

type c13Pool struct {
	names []string
	ids   []ap.IRI
	mk    []func() ap.Item
}

// c13Tricky are pairwise distinct ids that differ only inside an IPv6 literal, in the port after one, or in a trailing slash of
// a query value: "distinct" must not depend on how cleverly the authority or the query is split.
var c13Tricky = []ap.IRI{"https://[2001:db8::1]/a", "https://[2001:db8::2]/a", "https://[2001:db8::1]:8443/a", "https://[2001:db8::1]:9443/a", "https://example.com/s?dir=/in/"}

var c13CrossRefs bool // set while the cross-referencing pool is built

var c13IDSet []ap.IRI // when set, the ids of the pool being built

func c13MakePool(n int, tricky bool) c13Pool {
	set := c13IDSet
	id := func(i int) ap.IRI {
		if set != nil {
			return set[i]
		}
		if tricky {
			return c13Tricky[i]
		}
		return ap.IRI(fmt.Sprintf("https://example.com/p%d", i))
	}
	all := []struct {
		name string
		mk   func() ap.Item
	}{
		{"iri0", func() ap.Item { return id(0) }},
		{"obj1", func() ap.Item {
			return &ap.Object{ID: id(1), Type: ap.NoteType, Name: ap.NaturalLanguageValues{{Ref: "-", Value: ap.Content("n")}}}
		}},
		{"actor2", func() ap.Item { return &ap.Actor{ID: id(2), Type: ap.PersonType, Inbox: id(2) + "/inbox"} }},
		{"activity3", func() ap.Item {
			return &ap.Activity{ID: id(3), Type: ap.LikeType, Object: ap.IRI("https://example.com/liked")}
		}},
		{"objval4", func() ap.Item { return ap.Object{ID: id(4), Type: ap.ArticleType} }},
	}
	if c13CrossRefs {
		// pairwise distinct ids, but the items mention EACH OTHER's ids in other properties (url, inbox, object, attributedTo):
		// identity is the id, nothing else
		all[0].mk = func() ap.Item { return id(0) }
		all[1].mk = func() ap.Item {
			return &ap.Object{ID: id(1), Type: ap.NoteType, URL: id(0), AttributedTo: id(2), InReplyTo: ap.ItemCollection{id(3), id(4)}}
		}
		all[2].mk = func() ap.Item {
			return &ap.Actor{ID: id(2), Type: ap.PersonType, URL: ap.ItemCollection{id(0), &ap.Link{Type: ap.LinkType, Href: id(1)}}, Inbox: id(3), Outbox: id(4)}
		}
		all[3].mk = func() ap.Item {
			return &ap.Activity{ID: id(3), Type: ap.LikeType, Object: id(1), Actor: id(2), URL: id(4)}
		}
		all[4].mk = func() ap.Item { return ap.Object{ID: id(4), Type: ap.ArticleType, URL: id(3), Context: id(0)} }
	}
	switch c13TypePool {
	case 1:
		// the rarer object types, by pointer: membership goes through the same comparison whatever the struct
		all[0].mk = func() ap.Item { return &ap.Place{ID: id(0), Type: ap.PlaceType, Latitude: 1.5} }
		all[1].mk = func() ap.Item { return &ap.Profile{ID: id(1), Type: ap.ProfileType, Describes: id(0)} }
		all[2].mk = func() ap.Item {
			return &ap.Relationship{ID: id(2), Type: ap.RelationshipType, Subject: id(0), Object: id(1)}
		}
		all[3].mk = func() ap.Item { return &ap.Tombstone{ID: id(3), Type: ap.TombstoneType, FormerType: ap.NoteType} }
		all[4].mk = func() ap.Item {
			return &ap.Question{ID: id(4), Type: ap.QuestionType, OneOf: ap.ItemCollection{id(0), id(1)}}
		}
		for i, n := range []string{"place0", "profile1", "relationship2", "tombstone3", "question4"} {
			all[i].name = n
		}
	case 2:
		// intransitive activities and the collection types as members, and the value forms of two rarer types
		all[0].mk = func() ap.Item { return &ap.IntransitiveActivity{ID: id(0), Type: ap.ArriveType, Actor: id(1)} }
		all[1].mk = func() ap.Item {
			return &ap.Collection{ID: id(1), Type: ap.CollectionType, TotalItems: 1, Items: ap.ItemCollection{id(0)}}
		}
		all[2].mk = func() ap.Item {
			return &ap.OrderedCollectionPage{ID: id(2), Type: ap.OrderedCollectionPageType, PartOf: id(1)}
		}
		all[3].mk = func() ap.Item { return ap.Place{ID: id(3), Type: ap.PlaceType, Longitude: 2.5} }
		all[4].mk = func() ap.Item { return ap.Relationship{ID: id(4), Type: ap.RelationshipType, Subject: id(3)} }
		for i, n := range []string{"arrive0", "collection1", "orderedpage2", "placeval3", "relationshipval4"} {
			all[i].name = n
		}
	}
	p := c13Pool{}
	for i := 0; i < n; i++ {
		p.names = append(p.names, all[i].name)
		p.ids = append(p.ids, id(i))
		p.mk = append(p.mk, all[i].mk)
	}
	return p
}

var c13TypePool int // 1, 2: pools whose members are values of the rarer vocabulary types

type c13Op struct {
	kind string // append | append2 | contains | remove
	a, b int
}

func (o c13Op) str(p c13Pool) string {
	if o.kind == "append2" {
		return fmt.Sprintf("Append(%s,%s)", p.names[o.a], p.names[o.b])
	}
	return fmt.Sprintf("%s(%s)", strings.Title(o.kind), p.names[o.a])
}

type c13Kind struct {
	name      string
	hasRemove bool
	mk        func(pre ap.ItemCollection) ap.CollectionInterface
}

var c13Kinds = []c13Kind{
	{"ItemCollection", true, func(pre ap.ItemCollection) ap.CollectionInterface { c := pre; return &c }},
	{"IRIs", false, func(pre ap.ItemCollection) ap.CollectionInterface {
		var c ap.IRIs
		for _, it := range pre {
			c = append(c, it.GetLink())
		}
		return &c
	}},
	{"Collection", true, func(pre ap.ItemCollection) ap.CollectionInterface {
		return &ap.Collection{ID: "https://example.com/c", Type: ap.CollectionType, Items: pre}
	}},
	{"CollectionPage", true, func(pre ap.ItemCollection) ap.CollectionInterface {
		return &ap.CollectionPage{ID: "https://example.com/c?page=1", Type: ap.CollectionPageType, Items: pre}
	}},
	{"OrderedCollection", true, func(pre ap.ItemCollection) ap.CollectionInterface {
		return &ap.OrderedCollection{ID: "https://example.com/o", Type: ap.OrderedCollectionType, OrderedItems: pre}
	}},
	{"OrderedCollectionPage", true, func(pre ap.ItemCollection) ap.CollectionInterface {
		return &ap.OrderedCollectionPage{ID: "https://example.com/o?page=1", Type: ap.OrderedCollectionPageType, OrderedItems: pre}
	}},
}

func c13Ops(n int, withRemove bool) []c13Op {
	var ops []c13Op
	for i := 0; i < n; i++ {
		ops = append(ops, c13Op{"append", i, 0})
	}
	ops = append(ops, c13Op{"append2", 0, 1}, c13Op{"append2", 1, 1}, c13Op{"append2", 2, 0})
	if n > 3 {
		ops = append(ops, c13Op{"append2", 3, 2})
	}
	for i := 0; i < n; i++ {
		ops = append(ops, c13Op{"contains", i, 0})
	}
	if withRemove {
		for i := 0; i < n; i++ {
			ops = append(ops, c13Op{"remove", i, 0})
		}
	}
	return ops
}

func c13ModelHas(m []int, x int) bool {
	for _, y := range m {
		if y == x {
			return true
		}
	}
	return false
}

// c13BigPool is a pool of n items of pairwise distinct ids whose shapes rotate (IRI, *Object, *Actor, *Activity, Object value).
func c13BigPool(n int) c13Pool {
	id := func(i int) ap.IRI { return ap.IRI(fmt.Sprintf("https://example.com/big/%d", i)) }
	p := c13Pool{}
	for i := 0; i < n; i++ {
		i := i
		var mk func() ap.Item
		switch i % 5 {
		case 0:
			mk = func() ap.Item { return id(i) }
		case 1:
			mk = func() ap.Item { return &ap.Object{ID: id(i), Type: ap.NoteType} }
		case 2:
			mk = func() ap.Item { return &ap.Actor{ID: id(i), Type: ap.PersonType} }
		case 3:
			mk = func() ap.Item {
				return &ap.Activity{ID: id(i), Type: ap.LikeType, Object: ap.IRI("https://example.com/liked")}
			}
		default:
			mk = func() ap.Item { return ap.Object{ID: id(i), Type: ap.ArticleType} }
		}
		p.names = append(p.names, fmt.Sprintf("big%d", i))
		p.ids = append(p.ids, id(i))
		p.mk = append(p.mk, mk)
	}
	return p
}

var c13Probe []int // scale histories: membership is probed at these pool indices only (nil: every pool item)

var c13Light bool // during the long prefix of a scale history only contents and count are compared after each step

func c13Step(t *engine.T, kind c13Kind, pool c13Pool, hist string, cont ap.CollectionInterface, m []int, op c13Op) []int {
	fail := func(sym, format string, a ...any) {
		t.Fail("C13|"+kind.name+"|"+op.kind+"|"+sym, "history %s: %s", hist, fmt.Sprintf(format, a...))
	}
	switch op.kind {
	case "append":
		if err := cont.Append(pool.mk[op.a]()); err != nil {
			fail("error", "Append returned %v", err)
		}
		if !c13ModelHas(m, op.a) {
			m = append(m, op.a)
		}
	case "append2":
		if err := cont.Append(pool.mk[op.a](), pool.mk[op.b]()); err != nil {
			fail("error", "Append returned %v", err)
		}
		for _, x := range []int{op.a, op.b} {
			if !c13ModelHas(m, x) {
				m = append(m, x)
			}
		}
	case "contains":
		got := cont.Contains(pool.mk[op.a]())
		if want := c13ModelHas(m, op.a); got != want {
			fail("wrong-answer", "Contains(%s) = %v, ordered set says %v", pool.names[op.a], got, want)
		}
	case "remove":
		err := ap.OnItemCollection(cont.(ap.Item), func(c *ap.ItemCollection) error {
			c.Remove(pool.mk[op.a]())
			return nil
		})
		if err != nil {
			fail("no-view", "OnItemCollection returned %v", err)
		}
		var nm []int
		for _, y := range m {
			if y != op.a {
				nm = append(nm, y)
			}
		}
		m = nm
	}
	t.Ops(1)
	// observers
	items := cont.Collection()
	got := make([]string, len(items))
	for i, it := range items {
		if it == nil {
			got[i] = "<nil>"
		} else {
			got[i] = string(it.GetLink())
		}
	}
	want := make([]string, len(m))
	for i, x := range m {
		want[i] = string(pool.ids[x])
	}
	if strings.Join(got, " ") != strings.Join(want, " ") {
		fail("contents", "Collection() = %v, ordered set = %v", got, want)
	}
	if int(cont.Count()) != len(m) {
		fail("count", "Count() = %d, ordered set has %d members", cont.Count(), len(m))
	}
	for i := range pool.ids {
		if c13Light {
			break
		}
		if c13Probe != nil && !c13ModelHas(c13Probe, i) {
			continue
		}
		if g, w := cont.Contains(pool.mk[i]()), c13ModelHas(m, i); g != w {
			fail("membership", "after the step Contains(%s) = %v, ordered set says %v (contents %v)", pool.names[i], g, w, got)
		}
	}
	t.Ops(2 + len(pool.ids))
	t.State(engine.Hash64("c13", kind.name, strings.Join(want, " ")), len(m) > 0)
	return m
}

func init() {
	engine.Register(&engine.Check{
		ID: "C13", Name: "collections-ordered-sets", Level: "model_checking",
		Rule: "explicit-state exploration of operation histories over {Append(p), Append(p,q), Contains(p), Remove(p)} with a pool of items of pairwise distinct ids in mixed shapes " +
			"(IRI, *Object, *Actor, *Activity, Object value) on the six container kinds, from an empty and from a pre-populated container; every history is replayed on a fresh real container " +
			"in lock-step with a reference insertion-ordered set and Count/Collection/Contains(every pool item) are compared after every step; states = distinct (kind, member sequence) reached",
		Assumptions: []string{"reading D7: IRIs has no item-list view, so Remove is not in its alphabet", "items of distinct identity only (the stated domain)"},
		Bound: func(tier string) string {
			if tier == "thorough" {
				return "pool of 4: all histories of depth <= 5 over 15 operations; pool of 5: depth <= 4 over 19 operations; x 6 kinds x 2 start states; far states: each kind grown to 7..129 members in three ways (one by one, one variadic Append, pre-populated), then every continuation of depth <= 2 over 9-13 operations; a pool whose ids differ only inside the authority (IPv6 address, port after it) or in a query value; families added after round 5: DESIGN.md 8.11"
			}
			return "pool of 5: all histories of depth <= 3 over 19 operations; pool of 4: depth <= 4 over 15 operations; x 6 kinds x 2 start states; far states: each kind grown to 7..129 members in three ways (one by one, one variadic Append, pre-populated), then every continuation of depth <= 2 over 9-13 operations; a pool whose ids differ only inside the authority (IPv6 address, port after it) or in a query value; families added after round 5: DESIGN.md 8.11"
		},
		Run: c13Run,
	})
}

// c13Scale reaches far states (k members, k around the powers of two a growth or indexing shortcut could use) in three different
// ways - one Append per member, one variadic Append, a pre-populated container - and explores every continuation of depth <= 2
// from each of them.
func c13Scale(c *engine.Ctx) {
	sizes := []int{7, 8, 9, 15, 16, 17, 18, 31, 32, 33, 63, 64, 65, 127, 128, 129}
	for _, kind := range c13Kinds {
		for _, k := range sizes {
			for _, how := range []string{"one-by-one", "variadic", "pre-populated"} {
				kind, k, how := kind, k, how
				pool := c13BigPool(k + 2)
				ops := []c13Op{{"append", k, 0}, {"append", 0, 0}, {"append", k - 1, 0}, {"append2", k, k}, {"append2", k, k + 1}, {"append2", k, 0},
					{"contains", 0, 0}, {"contains", k - 1, 0}, {"contains", k, 0}}
				if kind.hasRemove {
					ops = append(ops, c13Op{"remove", 0, 0}, c13Op{"remove", k - 1, 0}, c13Op{"remove", k / 2, 0}, c13Op{"remove", k, 0})
				}
				c.Do("C13|"+kind.name, func() string {
					return fmt.Sprintf("%s grown to %d members (%s), then every continuation up to depth 2 over %d operations", kind.name, k, how, len(ops))
				}, func(t *engine.T) {
					var n int64
					c13Probe = []int{0, 1, k / 2, k - 2, k - 1, k, k + 1}
					defer func() { c13Probe = nil }()
					run := func(seq []c13Op) {
						t.Step(func() string { return fmt.Sprint(seq) })
						var cont ap.CollectionInterface
						var m []int
						hist := fmt.Sprintf("%s grown to %d (%s)", kind.name, k, how)
						switch how {
						case "one-by-one":
							cont = kind.mk(nil)
							c13Light = true
							for i := 0; i < k; i++ {
								m = c13Step(t, kind, pool, hist, cont, m, c13Op{"append", i, 0})
							}
							c13Light = false
						case "variadic":
							cont = kind.mk(nil)
							its := make([]ap.Item, k)
							for i := range its {
								its[i] = pool.mk[i]()
								m = append(m, i)
							}
							if err := cont.Append(its...); err != nil {
								t.Fail("C13|"+kind.name+"|append|error", "%s: Append of %d items returned %v", hist, k, err)
							}
						default:
							pre := make(ap.ItemCollection, k)
							for i := range pre {
								pre[i] = pool.mk[i]()
								m = append(m, i)
							}
							cont = kind.mk(pre)
						}
						// the state reached must be the same whichever way it was reached
						m = c13Step(t, kind, pool, hist, cont, m, c13Op{"contains", k - 1, 0})
						for _, op := range seq {
							hist += "; " + op.str(pool)
							m = c13Step(t, kind, pool, hist, cont, m, op)
						}
						n++
					}
					run(nil)
					for _, o1 := range ops {
						run([]c13Op{o1})
						for _, o2 := range ops {
							run([]c13Op{o1, o2})
						}
					}
					t.AddEvals(n-1, n-1)
				})
			}
		}
	}
}

func c13Run(c *engine.Ctx) {
	c13Scale(c)
	type cfg struct {
		pool, depth int
		tricky      bool
		types       int
	}
	cfgs := []cfg{{5, 3, false, 0}, {4, 4, false, 0}, {5, 3, true, 0}, {-5, 3, false, 0}, {5, 2, false, 1}, {5, 2, false, 2}}
	if !c.Quick() {
		cfgs = []cfg{{4, 5, false, 0}, {5, 4, false, 0}, {5, 4, true, 0}, {-5, 4, false, 0}, {5, 3, false, 1}, {5, 3, false, 2}}
	}
	// pools of ids that collide pairwise under a common 32-bit hash: every history of depth <= 2 (quick) / 3 (thorough)
	cols := universe.CollidingIDs()
	for k := 0; k+1 < len(cols); k += 2 {
		c13IDSet = []ap.IRI{cols[k][0], cols[k][1], cols[k+1][0], cols[k+1][1], "https://example.com/p4"}
		pool := c13MakePool(5, false)
		c13IDSet = nil
		depth := 2
		if !c.Quick() {
			depth = 3
		}
		for _, kind := range c13Kinds {
			ops := c13Ops(5, kind.hasRemove)
			kind, pool, k := kind, pool, k
			c.Do("C13|"+kind.name, func() string {
				return fmt.Sprintf("%s, pool of 5 whose ids collide pairwise under a 32-bit hash (pairs #%d, #%d): every history up to depth %d", kind.name, k, k+1, depth)
			}, func(t *engine.T) {
				var n int64
				var rec func(seq []c13Op)
				rec = func(seq []c13Op) {
					if len(seq) > 0 {
						t.Step(nil)
						cont := kind.mk(nil)
						var m []int
						hist := kind.name + " empty"
						for _, op := range seq {
							hist += "; " + op.str(pool)
							m = c13Step(t, kind, pool, hist, cont, m, op)
						}
						n++
					}
					if len(seq) >= depth {
						return
					}
					for _, o := range ops {
						rec(append(append([]c13Op{}, seq...), o))
					}
				}
				rec(nil)
				t.AddEvals(n-1, n-1)
			})
		}
	}
	for _, cf := range cfgs {
		if cf.pool < 0 {
			// a negative pool size selects the cross-referencing pool
			cf.pool = -cf.pool
			c13CrossRefs = true
		}
		c13TypePool = cf.types
		pool := c13MakePool(cf.pool, cf.tricky)
		c13TypePool = 0
		crossRefs := c13CrossRefs
		c13CrossRefs = false
		for _, kind := range c13Kinds {
			ops := c13Ops(cf.pool, kind.hasRemove)
			for _, start := range []string{"empty", "pre"} {
				for _, o1 := range ops {
					kind, start, o1, cf := kind, start, o1, cf
					c.Do("C13|"+kind.name, func() string {
						return fmt.Sprintf("%s from %s start, pool of %d (ids differing only inside the authority: %v; items mentioning each other's ids in url/inbox/object...: %v): %s; then every continuation up to depth %d", kind.name, start, cf.pool, cf.tricky, crossRefs, o1.str(pool), cf.depth)
					}, func(t *engine.T) {
						var n int64
						run := func(seq []c13Op) {
							t.Step(nil) // the watchdog judges one history, not the whole sub-tree of a case
							var pre ap.ItemCollection
							var m []int
							if start == "pre" {
								pre = ap.ItemCollection{pool.mk[1](), pool.mk[0]()}
								m = []int{1, 0}
							}
							cont := kind.mk(pre)
							hist := kind.name + " " + start
							for _, op := range seq {
								hist += "; " + op.str(pool)
								m = c13Step(t, kind, pool, hist, cont, m, op)
							}
							n++
						}
						var rec func(seq []c13Op)
						rec = func(seq []c13Op) {
							run(seq)
							if len(seq) >= cf.depth {
								return
							}
							for _, o := range ops {
								rec(append(append([]c13Op{}, seq...), o))
							}
						}
						rec([]c13Op{o1})
						t.AddEvals(n-1, n-1)
					})
				}
			}
		}
	}
}
