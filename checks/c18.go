package checks

import (
	"fmt"
	"reflect"
	"time"

	ap "github.com/go-ap/activitypub"

	"verif/internal/canon"
	"verif/internal/engine"
	"verif/internal/universe"
)

// C18 — property copy/update merges without losing data and rejects mismatches (DESIGN.md §3 C18, reading D11).

var c18Merged = map[string]bool{}

func init() {
	for _, t := range []string{"name", "summary", "content", "mediaType", "attachment", "attributedTo", "audience", "context", "generator", "icon", "image",
		"inReplyTo", "location", "preview", "replies", "tag", "url", "to", "bto", "cc", "bcc", "startTime", "endTime",
		"inbox", "outbox", "following", "followers", "liked", "preferredUsername", "first", "last", "items", "orderedItems", "partOf", "next", "prev"} {
		c18Merged[t] = true
	}
	engine.Register(&engine.Check{
		ID: "C18", Name: "copy-properties", Level: "model_checking",
		Rule: "pairs (to, from) of the six supported kinds (Object typed and type-less, Actor, Collection, CollectionPage, OrderedCollection, OrderedCollectionPage): for every property of the struct " +
			"(merged or not) the four set/unset combinations with different values on the two sides, against four backgrounds (others unset / set on to / set on from / set on both, different values); " +
			"property pairs x 16 combinations; refusals: nil and typed nil on either side, non-equivalent ids (host, path, query), equivalent-but-different ids (scheme, case, slash: must be accepted), " +
			"different type, unsupported types, struct mismatch; an accepted merge leaves to with exactly from's id and type; oracle = reference merge clauses on reflection snapshots; non-trivial = at least one property set on either side",
		Assumptions: []string{"reading D11: 'unsupported' is judged on to's non-empty type; hosts carry specific type names (Note, Person) or none"},
		Bound: func(tier string) string {
			return map[string]string{"quick": "", "thorough": "property triples x 64 combinations; "}[tier] + "single properties x 4 x 4 and property pairs x 16 on 7 (to,from) kinds; nil matrix; refusal grid; per property up to 5 further value pairs (same identities objectified / permuted / shrunk, 17 and 33 members, tag-only and last-byte text changes, instants at and before the epoch, sub-second change); families added after round 5: DESIGN.md 8.11"
		},
		DeadlineQuick: 5 * time.Minute,
		Run:           c18Run,
	})
}

// c18Value builds the `side` ("to"/"from") variant of a value for field f; the two sides always differ when the kind allows.
func c18Value(f universe.Field, side string, salt string, variant int) reflect.Value {
	iri := func(s string) ap.IRI { return ap.IRI("https://example.com/" + side + "/" + f.Term + "/" + s + salt) }
	isTo := side == "to"
	var v any
	if variant > 0 {
		// further (to, from) value pairs: same identities in another presentation or order, instants around the epoch,
		// texts that differ only in a tag or in their last byte, sizes around 16/32
		same := func(s string) ap.IRI { return ap.IRI("https://example.com/same/" + f.Term + "/" + s) }
		long := func(n int, objects, reversed bool) ap.ItemCollection {
			l := make(ap.ItemCollection, n)
			for i := range l {
				k := i
				if reversed {
					k = n - 1 - i
				}
				if objects {
					l[i] = &ap.Object{ID: same(fmt.Sprint(k)), Type: ap.NoteType}
				} else {
					l[i] = same(fmt.Sprint(k))
				}
			}
			return l
		}
		switch f.Kind {
		case universe.KItem:
			switch variant {
			case 1: // from holds the object to only names
				v = ap.Item(same("x"))
				if !isTo {
					v = &ap.Object{ID: same("x"), Type: ap.NoteType, Name: ap.NaturalLanguageValues{{Ref: "-", Value: ap.Content("objectified")}}}
				}
			case 2: // from only names the object to holds
				v = ap.Item(&ap.Actor{ID: same("x"), Type: ap.PersonType})
				if !isTo {
					v = same("x")
				}
			case 3:
				v = ap.Item(same("x"))
				if !isTo {
					v = ap.ItemCollection{same("x"), same("y")}
				}
			case 4: // lists on both sides of a single-item property
				v = ap.Item(ap.ItemCollection{same("x")})
				if !isTo {
					v = ap.ItemCollection{same("y"), same("z")}
				}
			case 5: // struct values (not pointers) on both sides
				v = ap.Item(ap.Object{ID: same("x"), Type: ap.NoteType})
				if !isTo {
					v = ap.Object{ID: same("y"), Type: ap.NoteType}
				}
			case 6: // IRI lists on both sides
				v = ap.Item(ap.IRIs{same("x")})
				if !isTo {
					v = ap.IRIs{same("y")}
				}
			case 7: // the very same pointer on both sides
				v = ap.Item(c18SharedObject)
			default:
				return reflect.Value{}
			}
			x := reflect.New(f.Type).Elem()
			x.Set(reflect.ValueOf(v))
			return x
		case universe.KItems:
			switch variant {
			case 1: // permuted
				v = long(2, false, !isTo)
			case 2: // objectified
				v = long(2, !isTo, false)
			case 3: // shrunk
				v = long(map[bool]int{true: 3, false: 1}[isTo], false, false)
			case 4: // 17 members, reversed and objectified
				v = long(17, !isTo, !isTo)
			case 5: // 33 vs 32 members
				v = long(map[bool]int{true: 33, false: 32}[isTo], false, false)
			case 6: // the Public collection on both sides, among other addressees
				v = ap.ItemCollection{ap.PublicNS, same("x")}
				if !isTo {
					v = ap.ItemCollection{same("y"), ap.PublicNS}
				}
			case 7: // the Public collection only in to's list
				v = ap.ItemCollection{ap.PublicNS, same("x")}
				if !isTo {
					v = ap.ItemCollection{same("y")}
				}
			case 8: // to's list is shorter than from's and has spare capacity (it was built by appends): storage that is reused must be filled
				v = append(make(ap.ItemCollection, 0, 8), same("t0"))
				if !isTo {
					v = long(3, false, false)
				}
			case 9: // to's list is longer than from's and has spare capacity
				v = append(make(ap.ItemCollection, 0, 8), same("t0"), same("t1"), same("t2"), same("t3"))
				if !isTo {
					v = long(2, true, false)
				}
			case 10: // an empty, non-nil list with capacity in to
				v = make(ap.ItemCollection, 0, 4)
				if !isTo {
					v = long(2, false, false)
				}
			default:
				return reflect.Value{}
			}
		case universe.KNLV:
			switch variant {
			case 1: // only the tag differs
				v = ap.NaturalLanguageValues{{Ref: map[bool]ap.LangRef{true: "en", false: "fr"}[isTo], Value: ap.Content("same text")}}
			case 2: // from has one more entry
				v = ap.NaturalLanguageValues{{Ref: "-", Value: ap.Content("same text")}}
				if !isTo {
					v = ap.NaturalLanguageValues{{Ref: "-", Value: ap.Content("same text")}, {Ref: "en", Value: ap.Content("more")}}
				}
			case 3: // long texts that differ in the last byte
				v = ap.NaturalLanguageValues{{Ref: "-", Value: ap.Content(universe.LongText(1024) + map[bool]string{true: "1", false: "2"}[isTo])}}
			default:
				return reflect.Value{}
			}
		case universe.KTime:
			switch variant {
			case 1:
				v = map[bool]time.Time{true: universe.T1, false: time.Date(1969, 7, 20, 20, 17, 40, 0, time.UTC)}[isTo]
			case 2:
				v = map[bool]time.Time{true: universe.T1, false: time.Unix(0, 0).UTC()}[isTo]
			case 3:
				v = map[bool]time.Time{true: time.Date(1900, 1, 1, 0, 0, 0, 0, time.UTC), false: universe.T1}[isTo]
			case 4:
				v = map[bool]time.Time{true: universe.T1, false: universe.T1.Add(500 * time.Millisecond)}[isTo]
			default:
				return reflect.Value{}
			}
		case universe.KDuration:
			if variant > 1 {
				return reflect.Value{}
			}
			v = map[bool]time.Duration{true: 90 * time.Second, false: -30 * time.Second}[isTo]
		case universe.KFloat:
			if variant > 1 {
				return reflect.Value{}
			}
			v = map[bool]float64{true: 2.25, false: 1e-9}[isTo]
		case universe.KUint:
			if variant > 1 {
				return reflect.Value{}
			}
			v = map[bool]uint{true: 3, false: 1 << 40}[isTo]
		default:
			return reflect.Value{}
		}
		return reflect.ValueOf(v)
	}
	switch f.Kind {
	case universe.KItem:
		if isTo {
			v = iri("i")
		} else {
			v = &ap.Object{ID: iri("o"), Type: ap.NoteType}
		}
		x := reflect.New(f.Type).Elem()
		x.Set(reflect.ValueOf(v))
		return x
	case universe.KItems:
		if isTo {
			v = ap.ItemCollection{iri("1")}
		} else {
			v = ap.ItemCollection{iri("1"), &ap.Actor{ID: iri("2"), Type: ap.PersonType}}
		}
	case universe.KNLV:
		if isTo {
			v = ap.NaturalLanguageValues{{Ref: "-", Value: ap.Content("to text " + f.Term)}}
		} else {
			v = ap.NaturalLanguageValues{{Ref: "en", Value: ap.Content("from text " + f.Term)}, {Ref: "fr", Value: ap.Content("texte")}}
		}
	case universe.KTime:
		v = universe.T1
		if !isTo {
			v = universe.T1.Add(48 * time.Hour)
		}
	case universe.KDuration:
		v = 90 * time.Second
		if !isTo {
			v = 45 * time.Minute
		}
	case universe.KFloat:
		v = 2.25
		if !isTo {
			v = -3.5
		}
	case universe.KInt:
		v = int64(3)
		if !isTo {
			v = int64(-7)
		}
	case universe.KUint:
		v = uint(3)
		if !isTo {
			v = uint(5)
		}
	case universe.KBool:
		v = true
	case universe.KIRI:
		v = iri("x")
	case universe.KMime:
		v = ap.MimeType("text/html")
		if !isTo {
			v = ap.MimeType("text/plain")
		}
	case universe.KLangRef:
		v = ap.LangRef("en")
		if !isTo {
			v = ap.LangRef("fr")
		}
	case universe.KVocabType:
		v = ap.NoteType
		if !isTo {
			v = ap.ArticleType
		}
	case universe.KString:
		v = "m"
		if !isTo {
			v = "km"
		}
	case universe.KSource:
		if isTo {
			v = ap.Source{Content: ap.NaturalLanguageValues{{Ref: "-", Value: ap.Content("to source")}}, MediaType: "text/markdown"}
		} else {
			v = ap.Source{Content: ap.NaturalLanguageValues{{Ref: "-", Value: ap.Content("from source")}}, MediaType: "text/x-rst"}
		}
	case universe.KPublicKey:
		v = ap.PublicKey{ID: iri("key"), Owner: iri("owner"), PublicKeyPem: "PEM " + side}
	case universe.KEndpoints:
		v = &ap.Endpoints{SharedInbox: iri("shared")}
	default:
		return reflect.Value{}
	}
	return reflect.ValueOf(v)
}

var c18SharedObject = &ap.Object{ID: "https://example.com/same/shared", Type: ap.NoteType}

type c18Kind struct {
	name   string
	st     string
	toType string
	frType string
}

var c18Kinds = []c18Kind{
	{"Object(Note)", "Object", "Note", "Note"},
	{"Object(type-less to)", "Object", "", "Note"},
	{"Actor(Person)", "Actor", "Person", "Person"},
	{"Collection", "Collection", "Collection", "Collection"},
	{"CollectionPage", "CollectionPage", "CollectionPage", "CollectionPage"},
	{"OrderedCollection", "OrderedCollection", "OrderedCollection", "OrderedCollection"},
	{"OrderedCollectionPage", "OrderedCollectionPage", "OrderedCollectionPage", "OrderedCollectionPage"},
}

type c18Setting struct {
	field   universe.Field
	onTo    bool
	onFr    bool
	variant int
}

func c18Build(k c18Kind, side string, sets []c18Setting, bg string) reflect.Value {
	st := universe.ByName(k.st)
	p := reflect.New(st.Type)
	e := p.Elem()
	id, typ := "https://example.com/the-id", k.toType
	if side == "from" {
		typ = k.frType
	}
	e.FieldByName("ID").Set(reflect.ValueOf(ap.IRI(id)))
	e.FieldByName("Type").Set(reflect.ValueOf(ap.ActivityVocabularyType(typ)))
	focus := map[int]bool{}
	for _, s := range sets {
		focus[s.field.Index] = true
		if (side == "to" && s.onTo) || (side == "from" && s.onFr) {
			if v := c18Value(s.field, side, "", s.variant); v.IsValid() {
				e.Field(s.field.Index).Set(v)
			}
		}
	}
	if bg == "public" {
		// the other addressing lists of both sides mention the Public collection (and one ordinary addressee each)
		for _, f := range st.PropertyFields() {
			if focus[f.Index] || f.Kind != universe.KItems {
				continue
			}
			switch f.Term {
			case "to", "cc", "bto", "bcc", "audience":
				e.Field(f.Index).Set(reflect.ValueOf(ap.ItemCollection{ap.PublicNS, ap.IRI("https://example.com/" + side + "/" + f.Term + "/other")}))
			}
		}
	}
	if bg == "both" || bg == side {
		for _, f := range st.PropertyFields() {
			if focus[f.Index] {
				continue
			}
			if v := c18Value(f, side, "-bg", 0); v.IsValid() {
				e.Field(f.Index).Set(v)
			}
		}
	}
	return p
}

func c18Judge(t *engine.T, k c18Kind, sets []c18Setting, bg string) {
	to, from := c18Build(k, "to", sets, bg), c18Build(k, "from", sets, bg)
	toBefore, fromBefore := canon.Of(to.Interface(), canon.Raw), canon.Of(from.Interface(), canon.Raw)
	key := func(term, sym string) string { return "C18|" + k.name + "|" + term + "|" + sym }
	res, err := ap.CopyItemProperties(to.Interface().(ap.Item), from.Interface().(ap.Item))
	t.Ops(1)
	if fromAfter := canon.Of(from.Interface(), canon.Raw); !canon.Equal(fromBefore, fromAfter) {
		ds := canon.Diff(fromBefore, fromAfter)
		t.Fail(key(canon.LastTerm(ds[0].Path), "from-modified"), "`from` was modified: %s", ds[0])
	}
	if err != nil {
		t.Fail(key("*", "error-on-valid-merge"), "CopyItemProperties refused a valid pair: %v", err)
		return
	}
	if res == nil || reflect.ValueOf(res).Pointer() != to.Pointer() {
		t.Fail(key("*", "result-is-not-to"), "the returned item is not `to`: %T", res)
	}
	after := canon.Of(to.Interface(), canon.Raw)
	get := func(n *canon.Node, term string) *canon.Node {
		if n == nil {
			return nil
		}
		return n.F[term]
	}
	if !canon.Equal(get(after, "id"), get(fromBefore, "id")) || !canon.Equal(get(after, "type"), get(fromBefore, "type")) {
		t.Fail(key("id-type", "not-from's"), "after the merge to has id %s type %s, from has %s %s", get(after, "id"), get(after, "type"), get(fromBefore, "id"), get(fromBefore, "type"))
	}
	type prop struct {
		term         string
		old, nw, got *canon.Node
	}
	var props []prop
	for _, f := range universe.ByName(k.st).PropertyFields() {
		old, nw, got := get(toBefore, f.Term), get(fromBefore, f.Term), get(after, f.Term)
		if f.Kind == universe.KSource || f.Kind == universe.KPublicKey || f.Kind == universe.KEndpoints {
			// nested structs are judged per sub-property (a merge of the sub-properties is a merge)
			subs := map[string]bool{}
			for _, n := range []*canon.Node{old, nw, got} {
				if n != nil {
					for s := range n.F {
						subs[s] = true
					}
				}
			}
			for s := range subs {
				props = append(props, prop{f.Term + "." + s, get(old, s), get(nw, s), get(got, s)})
			}
			continue
		}
		props = append(props, prop{f.Term, old, nw, got})
	}
	for _, pr := range props {
		f := struct{ Term string }{pr.term}
		old, nw, got := pr.old, pr.nw, pr.got
		combo := fmt.Sprintf("to=%v,from=%v", old != nil, nw != nil)
		switch {
		case !canon.Equal(got, old) && !canon.Equal(got, nw):
			t.Fail(key(f.Term, combo+"|neither-old-nor-from's"), "%s is %s; it was %s in to and is %s in from", f.Term, got, old, nw)
		case old != nil && nw == nil && !canon.Equal(got, old):
			t.Fail(key(f.Term, combo+"|lost"), "%s was %s in to, unset in from, and is now %s", f.Term, old, got)
		case c18Merged[f.Term] && nw != nil && !canon.Equal(got, nw):
			t.Fail(key(f.Term, combo+"|merged-property-not-taken"), "%s is %s in from but to now has %s", f.Term, nw, got)
		}
	}
}

func c18Run(c *engine.Ctx) {
	combos := [][2]bool{{true, false}, {false, true}, {true, true}, {false, false}}
	bgs := []string{"none", "to", "from", "both"}
	for _, k := range c18Kinds {
		k := k
		fields := universe.ByName(k.st).PropertyFields()
		for _, f := range fields {
			for _, cb := range combos {
				for _, bg := range bgs {
					f, cb, bg := f, cb, bg
					c.Do("C18|"+k.name, func() string {
						return fmt.Sprintf("%s: %s set on to=%v from=%v, other properties: %s", k.name, f.Term, cb[0], cb[1], bg)
					}, func(t *engine.T) {
						t.Distinct(cb[0] || cb[1] || bg != "none")
						c18Judge(t, k, []c18Setting{{f, cb[0], cb[1], 0}}, bg)
					})
				}
			}
			// further value pairs (both sides set; from only): same identities presented or ordered differently, epoch instants ...
			for variant := 1; c18Value(f, "to", "", variant).IsValid(); variant++ {
				for _, cb := range combos[:3] {
					for _, bg := range []string{"none", "both", "public"} {
						f, cb, bg, variant := f, cb, bg, variant
						c.Do("C18|"+k.name, func() string {
							return fmt.Sprintf("%s: %s (value pair #%d) set on to=%v from=%v, other properties: %s", k.name, f.Term, variant, cb[0], cb[1], bg)
						}, func(t *engine.T) {
							t.Distinct(true)
							c18Judge(t, k, []c18Setting{{f, cb[0], cb[1], variant}}, bg)
						})
					}
				}
			}
		}
		for i := 0; i < len(fields); i++ {
			for j := i + 1; j < len(fields); j++ {
				for _, c1 := range combos {
					for _, c2 := range combos {
						f1, f2, c1, c2 := fields[i], fields[j], c1, c2
						c.Do("C18|"+k.name, func() string {
							return fmt.Sprintf("%s: %s (to=%v from=%v) and %s (to=%v from=%v)", k.name, f1.Term, c1[0], c1[1], f2.Term, c2[0], c2[1])
						}, func(t *engine.T) {
							t.Distinct(true)
							c18Judge(t, k, []c18Setting{{f1, c1[0], c1[1], 0}, {f2, c2[0], c2[1], 0}}, "none")
						})
					}
				}
			}
		}
		if c.Quick() {
			continue
		}
		// thorough: property triples x 64 set/unset combinations
		for i := 0; i < len(fields); i++ {
			for j := i + 1; j < len(fields); j++ {
				for l := j + 1; l < len(fields); l++ {
					f1, f2, f3 := fields[i], fields[j], fields[l]
					c.Do("C18|"+k.name, func() string {
						return fmt.Sprintf("%s: %s, %s and %s in all 64 set/unset combinations", k.name, f1.Term, f2.Term, f3.Term)
					}, func(t *engine.T) {
						t.Distinct(true)
						for _, c1 := range combos {
							for _, c2 := range combos {
								for _, c3 := range combos {
									c18Judge(t, k, []c18Setting{{f1, c1[0], c1[1], 0}, {f2, c2[0], c2[1], 0}, {f3, c3[0], c3[1], 0}}, "none")
								}
							}
						}
						t.AddEvals(63, 63)
					})
				}
			}
		}
	}

	// ---- refusals
	type side struct {
		name string
		mk   func() ap.Item
	}
	obj := func(id, typ string) func() ap.Item {
		return func() ap.Item {
			return &ap.Object{ID: ap.IRI(id), Type: ap.ActivityVocabularyType(typ), Summary: ap.NaturalLanguageValues{{Ref: "-", Value: ap.Content("keep")}}}
		}
	}
	refuse := func(label string, to, from side, wantRefusal bool) {
		c.Do("C18|refusal|"+label, func() string { return fmt.Sprintf("CopyItemProperties(%s, %s)", to.name, from.name) }, func(t *engine.T) {
			t.Distinct(true)
			a, b := to.mk(), from.mk()
			var before, fromBefore *canon.Node
			if !isNilItem(a) {
				before = canon.Of(a, canon.Raw)
			}
			if !isNilItem(b) {
				fromBefore = canon.Of(b, canon.Raw)
			}
			_, err := ap.CopyItemProperties(a, b)
			t.Ops(1)
			if wantRefusal {
				if err == nil {
					t.Fail("C18|refusal|"+label+"|no-error", "the pair was merged although it must be refused")
				}
				if !isNilItem(a) && !canon.Equal(before, canon.Of(a, canon.Raw)) {
					t.Fail("C18|refusal|"+label+"|to-modified", "`to` was modified although the merge was refused (err=%v): %s", err, canon.Diff(before, canon.Of(a, canon.Raw))[0])
				}
			} else if err != nil {
				t.Fail("C18|refusal|"+label+"|refused-valid", "a valid pair was refused: %v", err)
			} else if !isNilItem(a) && !isNilItem(b) {
				// an accepted merge leaves to with from's id and type, exactly as from spells them
				after := canon.Of(a, canon.Raw)
				for _, term := range []string{"id", "type"} {
					if !canon.Equal(after.F[term], fromBefore.F[term]) {
						t.Fail("C18|refusal|"+label+"|"+term+"-not-from's", "after the accepted merge to has %s %s, from has %s", term, after.F[term], fromBefore.F[term])
					}
				}
			}
			if !isNilItem(b) && !canon.Equal(fromBefore, canon.Of(b, canon.Raw)) {
				t.Fail("C18|refusal|"+label+"|from-modified", "`from` was modified")
			}
		})
	}
	base := "https://example.com/users/1"
	good := side{"*Object(Note)", obj(base, "Note")}
	// nil and typed nil on either side
	nils := []side{{"nil", func() ap.Item { return nil }}}
	for i := range universe.Structs {
		s := &universe.Structs[i]
		nils = append(nils, side{"(*" + s.Name + ")(nil)", func() ap.Item { return reflect.Zero(reflect.PointerTo(s.Type)).Interface().(ap.Item) }})
	}
	for _, n := range nils {
		refuse("nil-to|"+n.name, n, good, true)
		refuse("nil-from|"+n.name, good, n, true)
		for _, m := range nils[:3] {
			refuse("nil-both|"+n.name+"|"+m.name, n, m, true)
		}
	}
	for _, v := range []struct{ dim, id string }{{"host", "https://example.org/users/1"}, {"port", "https://example.com:8443/users/1"}, {"path", "https://example.com/users/2"},
		{"path-prefix", "https://example.com/users/1/x"}, {"query", "https://example.com/users/1?v=2"}, {"empty", ""}} {
		refuse("id-"+v.dim, good, side{"*Object(Note) id=" + v.id, obj(v.id, "Note")}, true)
		refuse("id-"+v.dim+"-reversed", side{"*Object(Note) id=" + v.id, obj(v.id, "Note")}, good, true)
	}
	for _, v := range []struct{ dim, id string }{{"scheme", "http://example.com/users/1"}, {"host-case", "https://EXAMPLE.com/users/1"}, {"trailing-slash", "https://example.com/users/1/"},
		{"fragment", "https://example.com/users/1#main"}, {"identical", base}} {
		refuse("equivalent-id-"+v.dim, good, side{"*Object(Note) id=" + v.id, obj(v.id, "Note")}, false)
	}
	// pairs of ids that are NOT equivalent although a shortcut says so: ids without "://" that differ only in their first bytes, ids that
	// differ only in the byte before a fragment after multi-byte characters, in one character that a bit-trick fold identifies, in a
	// query that one side lacks, in the root spelled with a query
	for k, pr := range [][2]string{{"urn:x:1", "arn:x:1"}, {"ab", "cd"}, {"x", "y"}, {"acct:ann@example.com", "bcct:ann@example.com"}, {"as:Public", "bs:Public"},
		{"tag:example.com,2024:1", "tbg:example.com,2024:1"}, {"https://example.com/\u00e91#main", "https://example.com/\u00e92#main"},
		{"https://example.com/\u65e5\u672c/1#k", "https://example.com/\u65e5\u672c/2#k"}, {"https://example.com/u/@x", "https://example.com/u/`x"},
		{"https://example.com/u/[1]", "https://example.com/u/{1}"}, {"https://example.com/u/a_b", "https://example.com/u/a\x7fb"},
		{"https://example.com/u/1?", "https://example.com/u/1?x=1"}, {"https://example.com", "https://example.com/?x=1"}} {
		pr := pr
		a, b := side{"*Object(Note) id=" + pr[0], obj(pr[0], "Note")}, side{"*Object(Note) id=" + pr[1], obj(pr[1], "Note")}
		refuse(fmt.Sprintf("id-near-pair-%d", k), a, b, true)
		refuse(fmt.Sprintf("id-near-pair-%d-reversed", k), b, a, true)
		refuse(fmt.Sprintf("id-near-pair-%d-self", k), a, a, false)
	}
	// every ordered pair of distinct vocabulary names, each side built with the struct the vocabulary assigns to its name:
	// `to` typed differently from `from` must be refused whatever the two types are
	mkTyped := func(name string) func() ap.Item {
		return func() ap.Item {
			st := universe.ByName(c07Vocabulary[name][0])
			p := reflect.New(st.Type)
			p.Elem().FieldByName("ID").Set(reflect.ValueOf(ap.IRI(base)))
			p.Elem().FieldByName("Type").Set(reflect.ValueOf(ap.ActivityVocabularyType(name)))
			p.Elem().FieldByName("Name").Set(reflect.ValueOf(ap.NaturalLanguageValues{{Ref: "-", Value: ap.Content("keep " + name)}}))
			return p.Interface().(ap.Item)
		}
	}
	var vocab []string
	for n := range c07Vocabulary {
		vocab = append(vocab, n)
	}
	sortStrings(vocab)
	for _, a := range vocab {
		for _, b := range vocab {
			if a != b {
				refuse("type-differs|"+a+"-vs-"+b, side{"*" + c07Vocabulary[a][0] + "(" + a + ")", mkTyped(a)}, side{"*" + c07Vocabulary[b][0] + "(" + b + ")", mkTyped(b)}, true)
			}
		}
	}
	refuse("type-differs", good, side{"*Object(Article)", obj(base, "Article")}, true)
	refuse("type-differs-from-typeless", good, side{"*Object(type-less)", obj(base, "")}, true)
	refuse("type-differs-case", good, side{"*Object(note)", obj(base, "note")}, true)
	unsupported := []side{
		{"*Activity(Like)", func() ap.Item {
			return &ap.Activity{ID: ap.IRI(base), Type: ap.LikeType, Summary: ap.NaturalLanguageValues{{Ref: "-", Value: ap.Content("keep")}}}
		}},
		{"*IntransitiveActivity(Arrive)", func() ap.Item { return &ap.IntransitiveActivity{ID: ap.IRI(base), Type: ap.ArriveType} }},
		{"*Question", func() ap.Item { return &ap.Question{ID: ap.IRI(base), Type: ap.QuestionType} }},
		{"*Link", func() ap.Item { return &ap.Link{ID: ap.IRI(base), Type: ap.LinkType, Href: "https://example.com/h"} }},
		{"*Link(Mention)", func() ap.Item { return &ap.Link{ID: ap.IRI(base), Type: ap.MentionType} }},
		{"IRI", func() ap.Item { return ap.IRI(base) }},
	}
	for _, u := range unsupported {
		refuse("unsupported|"+u.name, u, u, true)
	}
	mismatch := []struct {
		label    string
		to, from side
	}{
		{"Collection-vs-Object", side{"*Collection", func() ap.Item {
			return &ap.Collection{ID: ap.IRI(base), Type: ap.CollectionType, TotalItems: 3, Summary: ap.NaturalLanguageValues{{Ref: "-", Value: ap.Content("keep")}}}
		}}, side{"*Object(Collection)", obj(base, "Collection")}},
		{"Person-vs-Object", side{"*Actor(Person)", func() ap.Item {
			return &ap.Actor{ID: ap.IRI(base), Type: ap.PersonType, Inbox: ap.IRI(base + "/inbox"), Summary: ap.NaturalLanguageValues{{Ref: "-", Value: ap.Content("keep")}}}
		}}, side{"*Object(Person)", obj(base, "Person")}},
		{"Object-vs-Actor", side{"*Object(Person)", obj(base, "Person")}, side{"*Actor(Person)", func() ap.Item { return &ap.Actor{ID: ap.IRI(base), Type: ap.PersonType} }}},
		{"OrderedCollectionPage-vs-Collection", side{"*OrderedCollectionPage", func() ap.Item {
			return &ap.OrderedCollectionPage{ID: ap.IRI(base), Type: ap.OrderedCollectionPageType, Summary: ap.NaturalLanguageValues{{Ref: "-", Value: ap.Content("keep")}}}
		}},
			side{"*Collection(OrderedCollectionPage)", func() ap.Item { return &ap.Collection{ID: ap.IRI(base), Type: ap.OrderedCollectionPageType} }}},
	}
	for _, m := range mismatch {
		refuse("struct-mismatch|"+m.label, m.to, m.from, true)
	}
}

func isNilItem(it ap.Item) bool {
	if it == nil {
		return true
	}
	v := reflect.ValueOf(it)
	return v.Kind() == reflect.Pointer && v.IsNil()
}
