package checks

import (
	"encoding/json"
	"fmt"
	"math"
	"reflect"
	"regexp"
	"sort"
	"strconv"
	"strings"
	"time"
	"unicode/utf8"

	ap "github.com/go-ap/activitypub"

	"verif/internal/canon"
	"verif/internal/engine"
	"verif/internal/jsonref"
	"verif/internal/universe"
)

// C02 — emitted JSON is valid, unambiguous, injection-free and correctly termed (DESIGN.md §3 C02, reading D2).
//
// Oracle: the output is read with the independent reader (encoding/json token stream) and walked in parallel with the Go
// value by reflection: one JSON value, no duplicate member names, only declared terms, every populated field under its own
// term, the prescribed JSON kind per Go field type, and every string decodes to the bytes held.

type c02Hostile struct{ name, s string }

var c02H = []c02Hostile{
	{"quote", `"`}, {"backslash", `\`}, {"escaped-quote", `\"`}, {"inject-member", `","type":"Delete`}, {"close-brace", `"}`}, {"unicode-escape", `A`},
	{"script", `</script>`}, {"LF", "\n"}, {"NUL", "\x00"}, {"x1f", "\x1f"}, {"DEL", "\x7f"}, {"non-ascii", "é"}, {"U+2028", " "}, {"astral", "😀"},
	{"invalid-utf8", "\xff"}, {"truncated-rune", "\xc3"}, {"mid-quote", `a"b`}, {"double-quote", `""`}, {"trailing-backslash", `a\`},
	// ill-formed UTF-8 of every kind (a hostile byte right after a cut sequence must still be escaped), format characters
	{"cut-4byte-after-3", "\xf0\x9f\x98"}, {"cut-4byte-after-2", "\xf0\x9f"}, {"cut-3byte", "\xe2\x82"}, {"overlong", "\xc0\xaf"}, {"surrogate", "\xed\xa0\x80"},
	{"lone-continuation", "\x80"}, {"U+2066", "\u2066"}, {"BOM", "\ufeff"},
}

var c02Duration = regexp.MustCompile(`^-?P(\d+Y)?(\d+M)?(\d+D)?(T(\d+H)?(\d+M)?(\d+(\.\d+)?S)?)?$`)

// c02Expect is the text a reader must get back for a stored byte string (D2: invalid bytes may become U+FFFD).
func c02SameText(got string, held []byte) bool {
	if got == string(held) {
		return true
	}
	var b strings.Builder
	for i := 0; i < len(held); {
		r, size := utf8.DecodeRune(held[i:])
		if r == utf8.RuneError && size == 1 {
			b.WriteRune('�')
		} else {
			b.Write(held[i : i+size])
		}
		i += size
	}
	return got == b.String()
}

type c02Walker struct {
	fails []c02Fail
}

type c02Fail struct {
	owner, term, sym, detail string
}

func (w *c02Walker) fail(owner, term, sym, format string, a ...any) {
	w.fails = append(w.fails, c02Fail{owner, term, sym, fmt.Sprintf(format, a...)})
}

// c02SaysNothing: language lists whose entries all hold an empty text, and a Source that consists of such a list only.
func c02SaysNothing(f *universe.Field, fv reflect.Value) bool {
	empty := func(n ap.NaturalLanguageValues) bool {
		for _, e := range n {
			if len(e.Value) > 0 {
				return false
			}
		}
		return true
	}
	switch v := fv.Interface().(type) {
	case ap.NaturalLanguageValues:
		return empty(v)
	case ap.Source:
		return v.MediaType == "" && empty(v.Content)
	}
	return false
}

func c02Describe(t reflect.Type) *universe.Struct {
	return universe.ByName(t.Name())
}

func (w *c02Walker) object(sv reflect.Value, j *jsonref.Node, path string) {
	owner := sv.Type().Name()
	st := c02Describe(sv.Type())
	if st == nil {
		return
	}
	if j.Kind != "object" {
		w.fail(owner, "*", "kind:object-expected:"+j.Kind, "%s: a %s must be written as a JSON object, got %s", path, owner, j.Kind)
		return
	}
	for _, d := range j.Duplicates() {
		w.fail(owner, d, "duplicate-member", "%s: member %q occurs more than once", path, d)
	}
	byTerm := map[string]*universe.Field{}
	for i := range st.Fields {
		f := &st.Fields[i]
		byTerm[f.Term] = f
		if f.Kind == universe.KNLV {
			byTerm[f.Term+"Map"] = f
		}
	}
	for _, name := range j.Names {
		if _, ok := byTerm[name]; !ok && !strings.HasPrefix(name, "@") {
			w.fail(owner, name, "undeclared-member", "%s: member %q is not a term %s declares", path, name, owner)
		}
	}
	for i := range st.Fields {
		f := &st.Fields[i]
		fv := sv.Field(f.Index)
		if canon.Of(fv.Interface(), canon.JSON) == nil {
			continue
		}
		m := j.Get(f.Term)
		isMap := false
		if m == nil && f.Kind == universe.KNLV {
			m, isMap = j.Get(f.Term+"Map"), true
		}
		if m == nil && f.Kind == universe.KFloat && (math.IsNaN(fv.Float()) || math.IsInf(fv.Float(), 0)) {
			continue // JSON has no number for NaN and the infinities: saying nothing is the only valid output
		}
		if m == nil && c02SaysNothing(f, fv) {
			continue // a language list (or a source made of one) whose texts are all empty says nothing
		}
		if m == nil {
			w.fail(owner, f.Term, "populated-field-missing", "%s: %s is set but not written under its term", path, f.Term)
			continue
		}
		w.value(owner, f, fv, m, isMap, path+"."+f.Term)
	}
}

func (w *c02Walker) value(owner string, f *universe.Field, fv reflect.Value, m *jsonref.Node, isMap bool, path string) {
	str := func(held []byte) {
		if m.Kind != "string" {
			w.fail(owner, f.Term, "kind:string-expected:"+m.Kind, "%s: expected a JSON string, got %s", path, m.Kind)
			return
		}
		if !c02SameText(m.Str, held) {
			w.fail(owner, f.Term, "string-changed", "%s: holds %q, a reader gets %q", path, held, m.Str)
		}
	}
	switch f.Kind {
	case universe.KIRI, universe.KMime, universe.KLangRef, universe.KVocabType, universe.KString:
		str([]byte(fv.String()))
	case universe.KBool:
		if m.Kind != "bool" || m.Str != fmt.Sprint(fv.Bool()) {
			w.fail(owner, f.Term, "kind:bool-expected:"+m.Kind, "%s: expected the JSON boolean %v, got %s %q", path, fv.Bool(), m.Kind, m.Str)
		}
	case universe.KFloat, universe.KInt, universe.KUint:
		if m.Kind != "number" {
			w.fail(owner, f.Term, "kind:number-expected:"+m.Kind, "%s: expected a JSON number, got %s %q", path, m.Kind, m.Str)
			return
		}
		g, err := strconv.ParseFloat(m.Str, 64)
		var want float64
		switch f.Kind {
		case universe.KFloat:
			want = fv.Float()
		case universe.KInt:
			want = float64(fv.Int())
		default:
			want = float64(fv.Uint())
		}
		if err != nil || g != want {
			w.fail(owner, f.Term, "number-changed", "%s: holds %v, written %q", path, want, m.Str)
		}
	case universe.KTime:
		if m.Kind != "string" {
			w.fail(owner, f.Term, "kind:string-expected:"+m.Kind, "%s: an instant must be an RFC 3339 string, got %s", path, m.Kind)
			return
		}
		tm, err := time.Parse(time.RFC3339Nano, m.Str)
		if err != nil {
			w.fail(owner, f.Term, "not-rfc3339", "%s: %q is not RFC 3339: %v", path, m.Str, err)
			return
		}
		if held := fv.Interface().(time.Time); tm.Unix() != held.Unix() {
			w.fail(owner, f.Term, "instant-changed", "%s: holds %s, written %q", path, held, m.Str)
		}
	case universe.KDuration:
		if m.Kind != "string" || !c02Duration.MatchString(m.Str) || m.Str == "P" || strings.HasSuffix(m.Str, "T") {
			w.fail(owner, f.Term, "not-xsd-duration", "%s: %s %q is not an xsd:duration", path, m.Kind, m.Str)
		}
	case universe.KNLV:
		n := fv.Interface().(ap.NaturalLanguageValues)
		switch {
		case m.Kind == "string" && !isMap:
			if len(n) != 1 {
				w.fail(owner, f.Term, "lang-collapsed", "%s: %d language values written as one string", path, len(n))
				return
			}
			if !c02SameText(m.Str, n[0].Value) {
				w.fail(owner, f.Term, "string-changed", "%s: holds %q, a reader gets %q", path, n[0].Value, m.Str)
			}
		case m.Kind == "object":
			for _, d := range m.Duplicates() {
				w.fail(owner, f.Term, "duplicate-language-tag", "%s: language tag %q occurs more than once", path, d)
			}
			// a JSON object cannot repeat a member: of several values with the same tag (untagged, "" and "und" are one tag)
			// the first - the one Get returns - is the one to write
			var first ap.NaturalLanguageValues
			seenTag := map[string]bool{}
			for _, e := range n {
				tag := string(e.Ref)
				if tag == "" || tag == "-" {
					tag = "und"
				}
				if len(e.Value) == 0 || seenTag[tag] {
					continue
				}
				seenTag[tag] = true
				first = append(first, e)
			}
			n = first
			if len(m.Names) != len(n) {
				w.fail(owner, f.Term, "lang-entries", "%s: %d language values with distinct tags held, %d written", path, len(n), len(m.Names))
				return
			}
			for _, e := range n {
				found := false
				for i, tag := range m.Names {
					untagged := e.Ref == ap.NilLangRef || e.Ref == ""
					if (untagged || c02SameText(tag, []byte(e.Ref))) && m.Members[i].Kind == "string" && c02SameText(m.Members[i].Str, e.Value) {
						found = true
					}
				}
				if !found {
					w.fail(owner, f.Term, "string-changed", "%s: entry %q:%q is not in the written map %v", path, e.Ref, e.Value, m.Names)
				}
			}
		default:
			w.fail(owner, f.Term, "kind:string-or-map-expected:"+m.Kind, "%s: natural language value written as %s", path, m.Kind)
		}
	case universe.KItem:
		var it ap.Item
		if !fv.IsNil() {
			it, _ = fv.Interface().(ap.Item)
		}
		w.item(owner, f.Term, it, m, path)
	case universe.KItems:
		w.item(owner, f.Term, fv.Interface().(ap.ItemCollection), m, path)
	case universe.KSource, universe.KPublicKey:
		w.object(fv, m, path)
	case universe.KEndpoints:
		if !fv.IsNil() {
			w.object(fv.Elem(), m, path)
		}
	}
}

func (w *c02Walker) item(owner, term string, it ap.Item, m *jsonref.Node, path string) {
	if it == nil {
		return
	}
	list := func(elems []ap.Item) {
		var nonNil []ap.Item
		for _, e := range elems {
			if canon.Of(e, canon.JSON) != nil {
				nonNil = append(nonNil, e)
			}
		}
		if m.Kind != "array" {
			if len(nonNil) == 1 {
				w.item(owner, term, nonNil[0], m, path)
				return
			}
			w.fail(owner, term, "kind:array-expected:"+m.Kind, "%s: a list of %d items written as %s", path, len(nonNil), m.Kind)
			return
		}
		if len(m.Elems) != len(nonNil) {
			// an empty IRI may also be written as the empty string it is (IRIs does that), instead of being left out
			var withEmpty []ap.Item
			for _, e := range elems {
				if iri, ok := e.(ap.IRI); ok && iri == "" {
					withEmpty = append(withEmpty, e)
				} else if canon.Of(e, canon.JSON) != nil {
					withEmpty = append(withEmpty, e)
				}
			}
			if len(m.Elems) == len(withEmpty) {
				for i, e := range withEmpty {
					if iri, ok := e.(ap.IRI); ok && iri == "" {
						if m.Elems[i].Kind != "string" || m.Elems[i].Str != "" {
							w.fail(owner, term, "empty-iri-written-as-something", "%s[%d]: an empty IRI written as %s %q", path, i, m.Elems[i].Kind, m.Elems[i].Str)
						}
						continue
					}
					w.item(owner, term, e, m.Elems[i], fmt.Sprintf("%s[%d]", path, i))
				}
				return
			}
			w.fail(owner, term, "list-length", "%s: %d items held, %d written", path, len(nonNil), len(m.Elems))
			return
		}
		for i, e := range nonNil {
			w.item(owner, term, e, m.Elems[i], fmt.Sprintf("%s[%d]", path, i))
		}
	}
	switch v := it.(type) {
	case ap.IRI:
		if m.Kind != "string" {
			w.fail(owner, term, "kind:string-expected:"+m.Kind, "%s: an IRI must be a JSON string, got %s", path, m.Kind)
			return
		}
		if !c02SameText(m.Str, []byte(v)) {
			w.fail(owner, term, "string-changed", "%s: holds %q, a reader gets %q", path, string(v), m.Str)
		}
	case ap.ItemCollection:
		list(v)
	case *ap.ItemCollection:
		list(*v)
	case ap.IRIs:
		es := make([]ap.Item, len(v))
		for i := range v {
			es[i] = v[i]
		}
		list(es)
	default:
		rv := reflect.ValueOf(it)
		if rv.Kind() == reflect.Pointer {
			if rv.IsNil() {
				return
			}
			rv = rv.Elem()
		}
		if rv.Kind() == reflect.Struct {
			w.object(rv, m, path)
		}
	}
}

// c02Judge reads b (the output for value v) and reports every non-conformance.
func c02Judge(v any, b []byte) []c02Fail {
	w := &c02Walker{}
	top := structNameOf(v)
	if len(b) == 0 {
		return nil // nothing to say
	}
	j, err := jsonref.Parse(b)
	if err != nil {
		w.fail(top, "*", "invalid-json", "output is not one valid JSON value: %v\n%q", err, b)
		return w.fails
	}
	switch x := v.(type) {
	case ap.NaturalLanguageValues:
		f := &universe.Field{Term: "(value)", Kind: universe.KNLV}
		w.value("NaturalLanguageValues", f, reflect.ValueOf(x), j, j.Kind == "object", "$")
	case ap.IRI, ap.IRIs, ap.ItemCollection:
		w.item(top, "(value)", x.(ap.Item), j, "$")
	case ap.MimeType:
		w.value("MimeType", &universe.Field{Term: "(value)", Kind: universe.KMime}, reflect.ValueOf(x), j, false, "$")
	case ap.ActivityVocabularyType:
		w.value("ActivityVocabularyType", &universe.Field{Term: "(value)", Kind: universe.KVocabType}, reflect.ValueOf(x), j, false, "$")
	default:
		rv := reflect.ValueOf(v)
		if rv.Kind() == reflect.Pointer {
			rv = rv.Elem()
		}
		w.object(rv, j, "$")
	}
	return w.fails
}

func init() {
	engine.Register(&engine.Check{
		ID: "C02", Name: "json-wellformed", Level: "model_checking",
		Rule: "(i) structure: the level-0, level-1 and saturated universe of C01 through every MarshalJSON method and the package function; (ii) strings: every string-bearing position found by reflection " +
			"(ids, IRI-typed fields and IRI items, types, media types, hrefLang, units, key material, natural-language texts and language tags, nested structs), at top level, inside an embedded object and inside a list, " +
			"x the hostile alphabet of 27 strings (quotes, backslashes, member injection, control bytes, ill-formed UTF-8 of every kind, format characters), also as the only member of a list,, alone, with a benign prefix, and in ordered pairs; (iii) language lists with an untagged entry; " +
			"(iv) the scalar marshalers IRI, IRIs, ItemCollection, MimeType, ActivityVocabularyType, NaturalLanguageValues; oracle: independent reader + parallel reflection walk; " +
			"non-trivial = output with at least one member beyond id/type or a hostile string",
		Assumptions: []string{"reading D2: an invalid UTF-8 byte may come back as U+FFFD", "member order, whitespace and number formatting are not judged", "members starting with @ are JSON-LD keywords and are not judged"},
		Bound: func(tier string) string {
			if tier == "thorough" {
				return "structure complete for levels 0/1/saturated; hostile strings: singles, prefixed and all 729 ordered pairs at 3 nesting positions; boundary-length strings in 11 string positions and an empty-but-non-nil neighbour next to every property; families added after round 5: DESIGN.md 8.11"
			}
			return "structure complete for levels 0/1/saturated; hostile strings: singles and prefixed at 3 nesting positions, all 729 ordered pairs at top level; boundary-length strings in 11 string positions and an empty-but-non-nil neighbour next to every property; families added after round 5: DESIGN.md 8.11"
		},
		DeadlineQuick: 5 * time.Minute, DeadlineThorough: 40 * time.Minute,
		Run: c02Run,
	})
}

func c02Check(c *engine.Ctx, what, hclass string, desc func() string, build func() any, entries []string, nontrivial bool) {
	for _, entry := range entries {
		entry := entry
		class := "C02|" + what + "|" + entry
		c.Do(class, func() string { return entry + " MarshalJSON of " + desc() }, func(t *engine.T) {
			v := build()
			b, err := jsonEncode(entry, v)
			t.Ops(1)
			t.State(engine.Hash64(entry, string(b)), nontrivial)
			if err != nil {
				t.Outcome("encoder-error")
				if entry == "method" {
					t.Fail(fmt.Sprintf("C02|%s|%s|*|encoder-error|%s", what, structNameOf(v), hclass), "MarshalJSON returned an error: %v", err)
				}
				return // the package function validates what the method wrote and refuses invalid output: nothing is emitted
			}
			if len(b) == 0 {
				t.Outcome("empty")
				return
			}
			t.Outcome("json")
			seen := map[string]bool{}
			for _, f := range c02Judge(v, b) {
				k := fmt.Sprintf("C02|%s|%s|%s|%s|%s", what, f.owner, f.term, f.sym, hclass)
				if seen[k] {
					continue
				}
				seen[k] = true
				t.Fail(k, "%s\noutput: %s", f.detail, b)
			}
		})
	}
}

// c02StringSetters lists, for a struct, every way of planting a byte string into a string-bearing position.
type c02Setter struct {
	term string
	set  func(e reflect.Value, s string)
}

func c02Setters(st *universe.Struct) []c02Setter {
	var out []c02Setter
	for _, f := range st.Fields {
		f := f
		switch f.Kind {
		case universe.KIRI, universe.KMime, universe.KLangRef, universe.KVocabType, universe.KString:
			out = append(out, c02Setter{f.Term, func(e reflect.Value, s string) { e.Field(f.Index).SetString(s) }})
		case universe.KNLV:
			out = append(out,
				c02Setter{f.Term + "(text)", func(e reflect.Value, s string) {
					e.Field(f.Index).Set(reflect.ValueOf(ap.NaturalLanguageValues{{Ref: ap.NilLangRef, Value: ap.Content(s)}}))
				}},
				c02Setter{f.Term + "(map-text)", func(e reflect.Value, s string) {
					e.Field(f.Index).Set(reflect.ValueOf(ap.NaturalLanguageValues{{Ref: "en", Value: ap.Content(s)}, {Ref: "fr", Value: ap.Content("benin")}}))
				}},
				c02Setter{f.Term + "(map-tag)", func(e reflect.Value, s string) {
					e.Field(f.Index).Set(reflect.ValueOf(ap.NaturalLanguageValues{{Ref: ap.LangRef(s), Value: ap.Content("texte")}, {Ref: "fr", Value: ap.Content("benin")}}))
				}},
			)
		case universe.KItem:
			out = append(out,
				c02Setter{f.Term + "(iri)", func(e reflect.Value, s string) { e.Field(f.Index).Set(reflect.ValueOf(ap.IRI(s))) }},
				c02Setter{f.Term + "(iris)", func(e reflect.Value, s string) {
					e.Field(f.Index).Set(reflect.ValueOf(ap.IRIs{"https://example.com/ok", ap.IRI(s)}))
				}},
				// lists of ONE: written without the surrounding array, by another code path than the members of a longer list
				c02Setter{f.Term + "(list-of-one)", func(e reflect.Value, s string) {
					e.Field(f.Index).Set(reflect.ValueOf(ap.ItemCollection{ap.IRI(s)}))
				}},
				c02Setter{f.Term + "(*list-of-one)", func(e reflect.Value, s string) {
					e.Field(f.Index).Set(reflect.ValueOf(&ap.ItemCollection{ap.IRI(s)}))
				}},
				c02Setter{f.Term + "(iris-of-one)", func(e reflect.Value, s string) { e.Field(f.Index).Set(reflect.ValueOf(ap.IRIs{ap.IRI(s)})) }},
			)
		case universe.KItems:
			out = append(out, c02Setter{f.Term + "(iri)", func(e reflect.Value, s string) {
				e.Field(f.Index).Set(reflect.ValueOf(ap.ItemCollection{ap.IRI("https://example.com/ok"), ap.IRI(s)}))
			}}, c02Setter{f.Term + "(list-of-one)", func(e reflect.Value, s string) {
				e.Field(f.Index).Set(reflect.ValueOf(ap.ItemCollection{ap.IRI(s)}))
			}})
		case universe.KSource:
			out = append(out,
				c02Setter{f.Term + ".mediaType", func(e reflect.Value, s string) {
					e.Field(f.Index).Set(reflect.ValueOf(ap.Source{MediaType: ap.MimeType(s), Content: ap.NaturalLanguageValues{{Ref: "-", Value: ap.Content("src")}}}))
				}},
				c02Setter{f.Term + ".content", func(e reflect.Value, s string) {
					e.Field(f.Index).Set(reflect.ValueOf(ap.Source{MediaType: "text/plain", Content: ap.NaturalLanguageValues{{Ref: "-", Value: ap.Content(s)}}}))
				}},
			)
		case universe.KPublicKey:
			out = append(out,
				c02Setter{f.Term + ".id", func(e reflect.Value, s string) {
					e.Field(f.Index).Set(reflect.ValueOf(ap.PublicKey{ID: ap.IRI(s), PublicKeyPem: "PEM"}))
				}},
				c02Setter{f.Term + ".owner", func(e reflect.Value, s string) {
					e.Field(f.Index).Set(reflect.ValueOf(ap.PublicKey{ID: "https://example.com/k", Owner: ap.IRI(s)}))
				}},
				c02Setter{f.Term + ".publicKeyPem", func(e reflect.Value, s string) {
					e.Field(f.Index).Set(reflect.ValueOf(ap.PublicKey{ID: "https://example.com/k", PublicKeyPem: s}))
				}},
			)
		case universe.KEndpoints:
			out = append(out, c02Setter{f.Term + ".sharedInbox", func(e reflect.Value, s string) {
				e.Field(f.Index).Set(reflect.ValueOf(&ap.Endpoints{SharedInbox: ap.IRI(s)}))
			}})
		}
	}
	return out
}

func c02Run(c *engine.Ctx) {
	both := []string{"method", "pkg"}
	// (i) structure
	structure := func(r universe.Recipe) {
		c02Check(c, "structure", "benign", r.String, func() any { return r.Build() }, both, len(r.Sets) > 0)
	}
	for i := range universe.Structs {
		s := &universe.Structs[i]
		universe.Level0(s, structure)
		universe.Level1(s, universe.JSON, false, structure)
		universe.Level1(s, universe.JSON, true, func(r universe.Recipe) { r.Value = true; structure(r) })
		universe.Saturated(s, universe.JSON, structure)
	}
	for i := range universe.Nested {
		s := &universe.Nested[i]
		for _, f := range s.Fields {
			for _, sh := range universe.ShapesFor(f, universe.JSON, false) {
				r := universe.Recipe{Struct: s, Value: true, Sets: []universe.Set{{Field: f, Shape: sh}}}
				c02Check(c, "structure", "benign", r.String, func() any { return r.Build() }, []string{"method"}, true)
			}
		}
	}
	universe.Scale(func(r universe.Recipe) {
		c02Check(c, "structure", "boundary", r.String, func() any { return r.Build() }, []string{"method"}, true)
	})
	universe.IRIPresentations(func(r universe.Recipe) {
		c02Check(c, "structure", "iri-form", r.String, func() any { return r.Build() }, []string{"method"}, true)
	})
	for i := range universe.Structs {
		universe.ListForms(&universe.Structs[i], func(r universe.Recipe) {
			c02Check(c, "structure", "list-form", r.String, func() any { return r.Build() }, both, true)
		})
	}
	for i := range universe.Structs {
		s := &universe.Structs[i]
		universe.Degenerate(s, universe.JSON, func(r universe.Recipe) {
			c02Check(c, "structure", "empty-neighbour", r.String, func() any { return r.Build() }, both, true)
		})
	}
	// members that have nothing to say: every item property of every type holds a list whose members are all empty values (an empty
	// object, an empty link, by pointer and by value) - alone (the property is then the LAST thing written) and before another
	// property. Whatever the writer decides about such a list, the bytes are empty or one valid JSON value.
	for i := range universe.Structs {
		s := &universe.Structs[i]
		for _, f := range s.ItemFields() {
			if f.Term == "id" || f.Term == "type" {
				continue
			}
			for vi, members := range []func() ap.ItemCollection{
				func() ap.ItemCollection { return ap.ItemCollection{&ap.Object{}} },
				func() ap.ItemCollection { return ap.ItemCollection{ap.Object{}, &ap.Link{}} },
				func() ap.ItemCollection { return ap.ItemCollection{&ap.Object{}, ap.IRI(""), &ap.Actor{}} },
			} {
				for _, withID := range []bool{false, true} {
					s, f, members, withID := s, f, members, withID
					desc := func() string {
						return fmt.Sprintf("%s{%s: list #%d of members that say nothing, id=%v}", s.Name, f.Term, vi, withID)
					}
					c02Check(c, "structure", "silent-members", desc, func() any {
						p := reflect.New(s.Type)
						if withID {
							p.Elem().FieldByName("ID").Set(reflect.ValueOf(ap.IRI("https://example.com/1")))
						}
						p.Elem().FieldByName("Type").Set(reflect.ValueOf(ap.ActivityVocabularyType(s.SpecificName())))
						p.Elem().Field(f.Index).Set(reflect.ValueOf(members()))
						return p.Interface()
					}, both, true)
				}
			}
		}
	}
	// (ii) hostile strings
	type hs struct{ class, s string }
	var hostile []hs
	for _, h := range c02H {
		hostile = append(hostile, hs{h.name, h.s}, hs{"prefixed-" + h.name, "https://example.com/x" + h.s + "y"})
	}
	{
		for _, a := range c02H {
			for _, b := range c02H {
				hostile = append(hostile, hs{"pair", a.s + b.s})
			}
		}
	}
	// every Unicode format / bidi control character and the non-characters, singly (an escaper that special-cases a block of
	// them must get each one right), at top level only
	for _, r := range []rune{0x061c, 0x200b, 0x200c, 0x200d, 0x200e, 0x200f, 0x202a, 0x202b, 0x202c, 0x202d, 0x202e, 0x2060, 0x2066, 0x2067, 0x2068, 0x2069,
		0x00ad, 0x034f, 0x180e, 0xfffe, 0xffff, 0xfdd0, 0x1fffe, 0x10ffff, 0xe000, 0x0080, 0x009f, 0x0130, 0x212a, 0x017f} {
		hostile = append(hostile, hs{fmt.Sprintf("U+%04X", r), "x" + string(r) + "y"})
	}
	places := []string{"top", "embedded", "in-list", "deep-list"}
	for i := range universe.Structs {
		s := &universe.Structs[i]
		for _, st := range c02Setters(s) {
			for _, h := range hostile {
				for _, place := range places {
					s, st, h, place := s, st, h, place
					if place != "top" && h.class == "pair" && c.Quick() {
						continue
					}
					if place == "deep-list" && (h.class == "pair" || strings.HasPrefix(h.class, "U+")) {
						continue
					}
					if place != "top" && strings.HasPrefix(h.class, "U+") {
						continue
					}
					build := func() any {
						p := reflect.New(s.Type)
						e := p.Elem()
						if st.term != "id" {
							e.FieldByName("ID").SetString("https://example.com/1")
						}
						if st.term != "type" {
							e.FieldByName("Type").SetString(s.SpecificName())
						}
						st.set(e, h.s)
						switch place {
						case "embedded":
							return &ap.Object{ID: "https://example.com/host", Type: ap.NoteType, Attachment: p.Interface().(ap.Item)}
						case "in-list":
							return &ap.Activity{ID: "https://example.com/host", Type: ap.CreateType, Tag: ap.ItemCollection{ap.IRI("https://example.com/t"), p.Interface().(ap.Item)}}
						case "deep-list":
							// member of a list nine levels below the root
							var inner ap.Item = &ap.Object{ID: "https://example.com/d9", Type: ap.NoteType, Tag: ap.ItemCollection{ap.IRI("https://example.com/t"), p.Interface().(ap.Item)}}
							for d := 8; d >= 1; d-- {
								o := &ap.Object{ID: ap.IRI(fmt.Sprintf("https://example.com/d%d", d)), Type: ap.NoteType}
								if d%2 == 0 {
									o.InReplyTo = inner
								} else {
									o.Attachment = ap.ItemCollection{inner}
								}
								inner = o
							}
							return inner
						}
						return p.Interface()
					}
					c02Check(c, "hostile:"+place, h.class, func() string { return fmt.Sprintf("*%s with %s = %q (%s)", s.Name, st.term, h.s, place) }, build, both, true)
				}
			}
		}
	}
	// (ii-b) numbers and durations at the edges of their types, in every numeric / duration property
	for i := range universe.Structs {
		s := &universe.Structs[i]
		for _, f := range s.Fields {
			var vals []reflect.Value
			switch f.Kind {
			case universe.KFloat:
				for _, x := range []float64{math.NaN(), math.Inf(1), math.Inf(-1), math.Copysign(0, -1), math.MaxFloat64, math.SmallestNonzeroFloat64, -1e-300, 1e21, 123456789.123456789} {
					vals = append(vals, reflect.ValueOf(x))
				}
			case universe.KDuration:
				for _, x := range []time.Duration{500 * time.Millisecond, time.Nanosecond, -250 * time.Millisecond, 1500 * time.Millisecond, 24 * time.Hour, 36*time.Hour + 1500*time.Millisecond, -time.Second, 1<<63 - 1, -(1<<63 - 1), 366 * 24 * time.Hour} {
					vals = append(vals, reflect.ValueOf(x))
				}
			case universe.KInt:
				for _, x := range []int64{-1 << 63, 1<<63 - 1, -1} {
					vals = append(vals, reflect.ValueOf(x))
				}
			case universe.KUint:
				for _, x := range []uint{1<<63 - 1, 1 << 32} {
					vals = append(vals, reflect.ValueOf(x))
				}
			default:
				continue
			}
			for _, v := range vals {
				s, f, v := s, f, v
				c02Check(c, "number-edges", f.Term, func() string { return fmt.Sprintf("*%s with %s = %v", s.Name, f.Term, v.Interface()) }, func() any {
					p := reflect.New(s.Type)
					p.Elem().FieldByName("ID").SetString("https://example.com/1")
					p.Elem().FieldByName("Type").SetString(s.SpecificName())
					p.Elem().Field(f.Index).Set(v.Convert(f.Type))
					return p.Interface()
				}, both, true)
			}
		}
	}
	// (iii-a) language lists in which a tag occurs more than once (a JSON object must not repeat a member)
	// (iii-a0) language lists in which some entries hold an empty text (they say nothing): what remains decides the written form
	for k, l := range [][][2]string{{{"en", "hello"}, {"fr", ""}}, {{"-", ""}, {"en", "x"}}, {{"en", ""}, {"fr", ""}}, {{"en", "a"}, {"fr", ""}, {"de", "c"}}, {{"-", "plain"}, {"en", ""}}, {{"", ""}, {"-", "x"}, {"en", ""}}} {
		k, l := k, l
		mk := func() ap.NaturalLanguageValues {
			var n ap.NaturalLanguageValues
			for _, e := range l {
				n = append(n, ap.LangRefValue{Ref: ap.LangRef(e[0]), Value: ap.Content(e[1])})
			}
			return n
		}
		c02Check(c, "empty-texts", fmt.Sprint(l), func() string { return fmt.Sprintf("*Actor whose text properties hold %q (list #%d)", l, k) }, func() any {
			return &ap.Actor{ID: "https://example.com/1", Type: ap.PersonType, Name: mk(), Summary: mk(), Content: mk(), PreferredUsername: mk(), Source: ap.Source{Content: mk()}}
		}, both, true)
		c02Check(c, "empty-texts", fmt.Sprint(l), func() string { return fmt.Sprintf("*Link whose name holds %q", l) }, func() any {
			return &ap.Link{ID: "https://example.com/l", Type: ap.LinkType, Href: "https://example.com/h", Name: mk()}
		}, both, true)
		c02Check(c, "empty-texts", fmt.Sprint(l), func() string { return fmt.Sprintf("NaturalLanguageValues %q", l) }, func() any { return mk() }, []string{"method"}, true)
	}
	// (iii-a1) IRI lists with empty members anywhere: every arrangement of length <= 3 over {a, b, empty}, alone and in properties
	{
		alphabet := []ap.IRI{"https://example.com/a", "https://example.com/b", ""}
		var rec func(cur ap.IRIs)
		rec = func(cur ap.IRIs) {
			if len(cur) > 0 {
				l := append(ap.IRIs{}, cur...)
				label := fmt.Sprintf("%q", []ap.IRI(l))
				c02Check(c, "sparse-iris", "empty-members", func() string { return "IRIs " + label }, func() any { return append(ap.IRIs{}, l...) }, []string{"method"}, true)
				c02Check(c, "sparse-iris", "empty-members", func() string { return "*Object with attributedTo, inReplyTo = IRIs " + label }, func() any {
					return &ap.Object{ID: "https://example.com/1", Type: ap.NoteType, AttributedTo: append(ap.IRIs{}, l...), InReplyTo: append(ap.IRIs{}, l...)}
				}, both, true)
			}
			if len(cur) == 3 {
				return
			}
			for _, x := range alphabet {
				rec(append(append(ap.IRIs{}, cur...), x))
			}
		}
		rec(nil)
	}
	for k, tags := range [][]string{{"en", "en"}, {"-", ""}, {"-", "und"}, {"en", "fr", "en"}, {"", "en", "-"}, {"und", "und", "fr"}, {"en", "en", "en"}} {
		k, tags := k, tags
		c02Check(c, "repeated-tag", fmt.Sprint(tags), func() string {
			return fmt.Sprintf("*Object whose name, summary and content hold the tags %q (list #%d)", tags, k)
		}, func() any {
			var n ap.NaturalLanguageValues
			for i, tg := range tags {
				n = append(n, ap.LangRefValue{Ref: ap.LangRef(tg), Value: ap.Content(fmt.Sprintf("text %d", i))})
			}
			return &ap.Object{ID: "https://example.com/1", Type: ap.NoteType, Name: n, Summary: n, Content: n, Source: ap.Source{Content: n, MediaType: "text/plain"}}
		}, both, true)
		c02Check(c, "repeated-tag", fmt.Sprint(tags), func() string { return fmt.Sprintf("NaturalLanguageValues with the tags %q", tags) }, func() any {
			var n ap.NaturalLanguageValues
			for i, tg := range tags {
				n = append(n, ap.LangRefValue{Ref: ap.LangRef(tg), Value: ap.Content(fmt.Sprintf("text %d", i))})
			}
			return n
		}, []string{"method"}, true)
	}
	// (iii) language lists with an untagged entry among several
	for _, untaggedAt := range []int{0, 1, 2} {
		for _, tag := range []string{"-", ""} {
			untaggedAt, tag := untaggedAt, tag
			build := func() any {
				n := ap.NaturalLanguageValues{{Ref: "en", Value: ap.Content("one")}, {Ref: "fr", Value: ap.Content("deux")}, {Ref: "de", Value: ap.Content("drei")}}
				n[untaggedAt].Ref = ap.LangRef(tag)
				return &ap.Object{ID: "https://example.com/1", Type: ap.NoteType, Name: n, Content: n}
			}
			c02Check(c, "untagged-in-map", fmt.Sprintf("untagged(%q)", tag), func() string {
				return fmt.Sprintf("*Object whose name and content have 3 entries, entry %d untagged (%q)", untaggedAt, tag)
			}, build, both, true)
		}
	}
	// (iii-b) lists whose members may write nothing: every arrangement of length <= 3 over {iri, object, link, nil, typed nil, empty IRI, empty object}
	members := []struct {
		name string
		mk   func() ap.Item
	}{
		{"iri", func() ap.Item { return ap.IRI("https://example.com/i") }},
		{"obj", func() ap.Item { return &ap.Object{ID: "https://example.com/o", Type: ap.NoteType} }},
		{"link", func() ap.Item { return &ap.Link{Type: ap.MentionType, Href: "https://example.com/h"} }},
		{"nil", func() ap.Item { return nil }},
		{"typed-nil", func() ap.Item { return (*ap.Object)(nil) }},
		{"empty-iri", func() ap.Item { return ap.IRI("") }},
		{"empty-object", func() ap.Item { return &ap.Object{} }},
	}
	var arr func(cur []int)
	arr = func(cur []int) {
		if len(cur) > 0 {
			idx := append([]int{}, cur...)
			names := make([]string, len(idx))
			for i, x := range idx {
				names[i] = members[x].name
			}
			mkList := func() ap.ItemCollection {
				l := make(ap.ItemCollection, len(idx))
				for i, x := range idx {
					l[i] = members[x].mk()
				}
				return l
			}
			label := "[" + strings.Join(names, ",") + "]"
			c02Check(c, "sparse-list", "members-that-write-nothing", func() string { return "bare ItemCollection " + label }, func() any { return mkList() }, []string{"method"}, true)
			c02Check(c, "sparse-list", "members-that-write-nothing", func() string { return "*Activity with to/tag/object/audience = " + label }, func() any {
				return &ap.Activity{ID: "https://example.com/a", Type: ap.CreateType, To: mkList(), Tag: mkList(), Object: mkList(), Audience: mkList(), Actor: &ap.Actor{ID: "https://example.com/p", Type: ap.PersonType, Streams: mkList()}}
			}, both, true)
			c02Check(c, "sparse-list", "members-that-write-nothing", func() string { return "*OrderedCollection with orderedItems = " + label }, func() any {
				return &ap.OrderedCollection{ID: "https://example.com/c", Type: ap.OrderedCollectionType, OrderedItems: mkList()}
			}, both, true)
		}
		if len(cur) >= 3 {
			return
		}
		for x := range members {
			arr(append(cur, x))
		}
	}
	arr(nil)
	// (iv) scalar marshalers
	for _, h := range hostile {
		h := h
		scalars := map[string]func() any{
			"IRI":  func() any { return ap.IRI(h.s) },
			"IRIs": func() any { return ap.IRIs{"https://example.com/ok", ap.IRI(h.s)} },
			"ItemCollection": func() any {
				return ap.ItemCollection{ap.IRI("https://example.com/ok"), ap.IRI(h.s), &ap.Object{ID: ap.IRI(h.s), Type: ap.NoteType}}
			},
			"MimeType":               func() any { return ap.MimeType(h.s) },
			"ActivityVocabularyType": func() any { return ap.ActivityVocabularyType(h.s) },
			"NaturalLanguageValues": func() any {
				return ap.NaturalLanguageValues{{Ref: "en", Value: ap.Content(h.s)}, {Ref: ap.LangRef("x" + h.s), Value: ap.Content("v")}}
			},
			"NaturalLanguageValues1": func() any { return ap.NaturalLanguageValues{{Ref: "-", Value: ap.Content(h.s)}} },
		}
		names := make([]string, 0, len(scalars))
		for n := range scalars {
			names = append(names, n)
		}
		sort.Strings(names)
		for _, n := range names {
			n, mk := n, scalars[n]
			c02Check(c, "scalar:"+n, h.class, func() string { return fmt.Sprintf("%s holding %q", n, h.s) }, mk, []string{"method"}, true)
		}
	}
	_ = json.Valid
}
