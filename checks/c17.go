package checks

import (
	"fmt"
	"reflect"
	"sort"
	"time"

	ap "github.com/go-ap/activitypub"

	"verif/internal/engine"
	"verif/internal/universe"
)

// C17 — ItemOrderTimestamp is a strict weak order consistent with publication time.
//
// Alphabet: instants {zero, t1<t2<t3, t2 in +05:00, t2+1ns}; items = every (published, updated) pair on
// *Object, published-only on *Activity / value Actor / *Place (the view path), plus untyped nil and a
// typed-nil *Object. Bound: complete — all ordered pairs and triples; all permutations of all 5-subsets of
// 7 distinct-key items and all permutations of a 6-set with ties, sorted with sort.Slice.
// Oracle: less(a,b) == key(a).After(key(b)) with key = later of published/updated, nil before any object.

type c17Item struct {
	name  string
	kind  string
	it    ap.Item
	isNil bool
	key   time.Time
}

func c17Items() []c17Item {
	t1 := time.Date(2020, 1, 1, 10, 0, 0, 0, time.UTC)
	t2 := time.Date(2021, 6, 15, 12, 30, 0, 0, time.UTC)
	t3 := time.Date(2022, 12, 31, 23, 59, 59, 0, time.UTC)
	inst := []struct {
		n string
		t time.Time
	}{
		{"zero", time.Time{}}, {"t1", t1}, {"t2", t2}, {"t3", t3},
		{"t2@+05", t2.In(time.FixedZone("p5", 5*3600))}, {"t2+1ns", t2.Add(time.Nanosecond)},
		// magnitudes: before and at the Unix epoch, and beyond the range of UnixNano (year 2262)
		{"1969", time.Date(1969, 7, 20, 20, 17, 40, 0, time.UTC)}, {"epoch", time.Unix(0, 0).UTC()}, {"2300", time.Date(2300, 1, 1, 0, 0, 0, 0, time.UTC)},
	}
	later := func(p, u time.Time) time.Time {
		if u.After(p) {
			return u
		}
		return p
	}
	var out []c17Item
	out = append(out, c17Item{name: "nil", kind: "nil", it: nil, isNil: true})
	out = append(out, c17Item{name: "(*Object)(nil)", kind: "nil", it: (*ap.Object)(nil), isNil: true})
	for _, p := range inst {
		for _, u := range inst {
			out = append(out, c17Item{name: fmt.Sprintf("*Object{published:%s,updated:%s}", p.n, u.n), kind: "*Object",
				it: &ap.Object{ID: "https://example.com/o", Type: ap.NoteType, Published: p.t, Updated: u.t}, key: later(p.t, u.t)})
		}
	}
	for i, p := range inst {
		u := inst[(i+2)%len(inst)]
		out = append(out, c17Item{name: fmt.Sprintf("*Activity{published:%s,updated:%s}", p.n, u.n), kind: "*Activity",
			it: &ap.Activity{ID: "https://example.com/a", Type: ap.LikeType, Published: p.t, Updated: u.t}, key: later(p.t, u.t)})
		out = append(out, c17Item{name: fmt.Sprintf("Actor{published:%s}", p.n), kind: "Actor",
			it: ap.Actor{ID: "https://example.com/p", Type: ap.PersonType, Published: p.t}, key: p.t})
		out = append(out, c17Item{name: fmt.Sprintf("*Place{updated:%s}", p.n), kind: "*Place",
			it: &ap.Place{ID: "https://example.com/pl", Type: ap.PlaceType, Updated: p.t}, key: p.t})
	}
	// equal deciding instants, different ids (and types): still incomparable
	for k, id := range []ap.IRI{"https://example.com/a", "https://example.com/b", "https://example.com/c", ""} {
		out = append(out, c17Item{name: fmt.Sprintf("*Object{id:%q,published:t2}", id), kind: "*Object", it: &ap.Object{ID: id, Type: ap.NoteType, Published: t2}, key: t2})
		out = append(out, c17Item{name: fmt.Sprintf("*Activity{id:%q,updated:t2@+05}", id), kind: "*Activity",
			it: &ap.Activity{ID: id, Type: []ap.ActivityVocabularyType{ap.LikeType, ap.CreateType, ap.FollowType, ap.AnnounceType}[k], Updated: t2.In(time.FixedZone("p5", 5*3600))}, key: t2})
	}
	// activities of every type name that carry NO instants of their own but embed (object, actor, target, result, attachment,
	// inReplyTo, replies) items that do: only the item's own published/updated count
	nested := func() ap.Item {
		return &ap.Object{ID: "https://example.com/nested", Type: ap.NoteType, Published: t3, Updated: t3.Add(time.Hour)}
	}
	for _, name := range vocabularyNamesOf("Activity") {
		out = append(out, c17Item{name: fmt.Sprintf("*Activity{type:%s, no instants, object/actor/target with instants}", name), kind: "*Activity",
			it: &ap.Activity{ID: "https://example.com/wrap", Type: ap.ActivityVocabularyType(name), Object: nested(), Actor: &ap.Actor{ID: "https://example.com/p", Type: ap.PersonType, Published: t3},
				Target: nested(), Result: ap.ItemCollection{nested()}, Attachment: nested(), InReplyTo: nested()}, key: time.Time{}})
	}
	for _, name := range vocabularyNamesOf("Object") {
		out = append(out, c17Item{name: fmt.Sprintf("*Object{type:%s, published:t1, attachment/replies with later instants}", name), kind: "*Object",
			it: &ap.Object{ID: "https://example.com/host", Type: ap.ActivityVocabularyType(name), Published: t1, Attachment: nested(), InReplyTo: nested(),
				Replies: &ap.Collection{ID: "https://example.com/r", Type: ap.CollectionType, Published: t3, Items: ap.ItemCollection{nested()}}}, key: t1})
	}
	// every object struct of the vocabulary (pointer and value) with published/updated from two instants and EVERY OTHER instant
	// property (startTime, endTime, deleted, closed ...) set to a decoy in the year 2500: only published/updated may decide
	decoy := time.Date(2500, 1, 1, 0, 0, 0, 0, time.UTC)
	for si := range universe.Structs {
		st := &universe.Structs[si]
		if st.Family == "link" {
			continue
		}
		for k, pu := range [][2]int{{1, 0}, {0, 2}, {2, 3}, {3, 1}, {5, 2}} {
			p, u := inst[pu[0]], inst[pu[1]]
			v := reflect.New(st.Type)
			e := v.Elem()
			e.FieldByName("ID").Set(reflect.ValueOf(ap.IRI("https://example.com/x")))
			e.FieldByName("Type").Set(reflect.ValueOf(ap.ActivityVocabularyType(st.SpecificName())))
			for _, f := range st.Fields {
				if f.Kind == universe.KTime {
					e.Field(f.Index).Set(reflect.ValueOf(decoy))
				}
			}
			e.FieldByName("Published").Set(reflect.ValueOf(p.t))
			e.FieldByName("Updated").Set(reflect.ValueOf(u.t))
			var it ap.Item = v.Interface().(ap.Item)
			kind := "*" + st.Name
			if k%2 == 1 {
				it, kind = e.Interface().(ap.Item), st.Name
			}
			out = append(out, c17Item{name: fmt.Sprintf("%s{published:%s,updated:%s,other instants:2500}", kind, p.n, u.n), kind: kind, it: it, key: later(p.t, u.t)})
		}
	}
	return out
}

func c17Ref(a, b c17Item) bool {
	if a.isNil {
		return !b.isNil
	}
	if b.isNil {
		return false
	}
	return a.key.After(b.key)
}

func init() {
	engine.Register(&engine.Check{
		ID: "C17", Name: "timestamp-order", Level: "model_checking",
		Rule: "every ordered pair and triple of the item grid (equal deciding instants with four different ids and types; 9 instants^2 on *Object - zero, three dates, a zone variant, +1ns, 1969, the epoch, year 2300 -, view types, nil, typed nil) is one case; " +
			"every permutation of every 5-subset of 7 distinct-key items and of a 6-set with ties is one sort case; " +
			"non-trivial = pair with two non-nil items or a sort of >=5 items",
		Assumptions: []string{"sort.Slice is correct for a strict weak order", "reading D9 of DESIGN.md: domain = object struct types and nil"},
		Bound: func(string) string {
			return "complete: all pairs, all triples, 2520+720 permutation sorts (same in both tiers); families added after round 5: DESIGN.md 8.11"
		},
		Shards: 8,
		Run:    c17Run,
	})
}

func c17Run(c *engine.Ctx) {
	items := c17Items()
	for ai := range items {
		for bi := range items {
			a, b := items[ai], items[bi]
			class := fmt.Sprintf("C17|order|%s,%s", a.kind, b.kind)
			c.Do(class, func() string {
				return fmt.Sprintf("ItemOrderTimestamp over a=%s b=%s (and every c of the grid)", a.name, b.name)
			}, func(t *engine.T) {
				t.Distinct(!a.isNil && !b.isNil)
				ab := ap.ItemOrderTimestamp(a.it, b.it)
				ba := ap.ItemOrderTimestamp(b.it, a.it)
				t.Ops(2)
				if want := c17Ref(a, b); ab != want {
					t.Fail(class+"|disagrees-with-publication-order", "less(a,b)=%v, expected %v (key(a)=%s key(b)=%s)", ab, want, a.key, b.key)
				}
				if ai == bi && ab {
					t.Fail(class+"|reflexive", "less(a,a) is true")
				}
				if ab && ba {
					t.Fail(class+"|not-asymmetric", "less(a,b) and less(b,a) are both true")
				}
				for _, x := range items {
					bx := ap.ItemOrderTimestamp(b.it, x.it)
					ax := ap.ItemOrderTimestamp(a.it, x.it)
					xb := ap.ItemOrderTimestamp(x.it, b.it)
					xa := ap.ItemOrderTimestamp(x.it, a.it)
					t.Ops(4)
					if ab && bx && !ax {
						t.Fail(class+"|not-transitive", "less(a,b) && less(b,c) but !less(a,c), c=%s", x.name)
					}
					if !ab && !ba && !bx && !xb && (ax || xa) {
						t.Fail(class+"|incomparability-not-transitive", "a~b and b~c but a,c comparable, c=%s", x.name)
					}
				}
				t.Outcome(fmt.Sprintf("less=%v", ab))
			})
		}
	}
	// sorting: distinct keys
	base := time.Date(2023, 1, 1, 0, 0, 0, 0, time.UTC)
	var pool []c17Item
	for i := 0; i < 7; i++ {
		p, u := base.Add(time.Duration(i)*time.Hour), time.Time{}
		if i%2 == 1 { // key comes from updated
			p, u = base.Add(-time.Hour), base.Add(time.Duration(i)*time.Hour)
		}
		var it ap.Item = &ap.Object{ID: ap.IRI(fmt.Sprintf("https://example.com/%d", i)), Type: ap.NoteType, Published: p, Updated: u}
		if i == 3 {
			it = &ap.Activity{ID: "https://example.com/3", Type: ap.CreateType, Published: p, Updated: u}
		}
		pool = append(pool, c17Item{name: fmt.Sprintf("k%d", i), it: it, key: base.Add(time.Duration(i) * time.Hour)})
	}
	sortCase := func(kind string, perm []c17Item) {
		names := ""
		for _, p := range perm {
			names += p.name + " "
		}
		class := "C17|sort|" + kind
		c.Do(class, func() string { return "sort.Slice with ItemOrderTimestamp of [" + names + "]" }, func(t *engine.T) {
			t.Distinct(true)
			col := make(ap.ItemCollection, len(perm))
			keys := map[ap.IRI]time.Time{}
			for i, p := range perm {
				col[i] = p.it
				keys[p.it.GetLink()] = p.key
			}
			sort.Slice(col, func(i, j int) bool { return ap.ItemOrderTimestamp(col[i], col[j]) })
			t.Ops(1)
			ref := append([]c17Item(nil), perm...)
			sort.SliceStable(ref, func(i, j int) bool { return ref[i].key.After(ref[j].key) })
			for i := range col {
				if !keys[col[i].GetLink()].Equal(ref[i].key) {
					t.Fail(class+"|not-newest-first", "position %d holds key %s, independent sort has %s", i, keys[col[i].GetLink()], ref[i].key)
					break
				}
			}
			t.Outcome("sorted")
		})
	}
	var sub func(start int, cur []c17Item)
	sub = func(start int, cur []c17Item) {
		if len(cur) == 5 {
			permute(cur, func(p []c17Item) { sortCase("distinct", p) })
			return
		}
		for i := start; i < len(pool); i++ {
			sub(i+1, append(append([]c17Item(nil), cur...), pool[i]))
		}
	}
	sub(0, nil)
	// ties: 6 items, 3 distinct keys
	var ties []c17Item
	for i := 0; i < 6; i++ {
		k := base.Add(time.Duration(i/2) * time.Hour)
		ties = append(ties, c17Item{name: fmt.Sprintf("t%d(k%d)", i, i/2), key: k,
			it: &ap.Object{ID: ap.IRI(fmt.Sprintf("https://example.com/t%d", i)), Type: ap.NoteType, Published: k}})
	}
	permute(ties, func(p []c17Item) { sortCase("ties", p) })
}

func permute[E any](s []E, fn func([]E)) {
	a := append([]E(nil), s...)
	var rec func(k int)
	rec = func(k int) {
		if k == len(a) {
			fn(append([]E(nil), a...))
			return
		}
		for i := k; i < len(a); i++ {
			a[k], a[i] = a[i], a[k]
			rec(k + 1)
			a[k], a[i] = a[i], a[k]
		}
	}
	rec(0)
}
