package checks

import (
	"bytes"
	"fmt"
	"reflect"
	"sort"
	"strings"
	"time"

	ap "github.com/go-ap/activitypub"

	"verif/internal/engine"
	"verif/internal/universe"
)

// C06 — natural-language text survives both codecs byte for byte (DESIGN.md §3 C06).

var c06Tokens = []string{"a", " ", `\`, `"`, "/", "n", "t", "u", "0041", "<", "&", "{", "}", "[", "]", ":", ",", "1", "42", "true", "null",
	"\n", "\t", "\r", "\x01", "\x1f", "\x7f", "é", "€", " ", "�", "😀",
	// format and bidi characters, other line separators (tokens 32..: used in texts of length <= 2 and in the boundary family)
	"\u2066", "\u2069", "\u202e", "\u200b", "\ufeff", "\u0085", "\u00a0", "\u2029", "\u061c", "\U000e0001"}

const c06Core = 32 // the first 32 tokens form the alphabet of the length-3 (and length-4) texts

var c06TokenNames = []string{"a", "SP", "BSL", "QUOTE", "/", "n", "t", "u", "0041", "<", "&", "{", "}", "[", "]", ":", ",", "1", "42", "true", "null",
	"LF", "TAB", "CR", "x01", "x1f", "x7f", "é", "€", "U+2028", "U+FFFD", "😀",
	"U+2066", "U+2069", "U+202E", "U+200B", "U+FEFF", "U+0085", "U+00A0", "U+2029", "U+061C", "U+E0001"}

type c06Pos struct {
	name  string
	actor bool
	set   func(host any, n ap.NaturalLanguageValues)
	get   func(host any) ap.NaturalLanguageValues
}

var c06Positions = []c06Pos{
	{"name", false, func(h any, n ap.NaturalLanguageValues) { h.(*ap.Object).Name = n }, func(h any) ap.NaturalLanguageValues { return h.(*ap.Object).Name }},
	{"summary", false, func(h any, n ap.NaturalLanguageValues) { h.(*ap.Object).Summary = n }, func(h any) ap.NaturalLanguageValues { return h.(*ap.Object).Summary }},
	{"content", false, func(h any, n ap.NaturalLanguageValues) { h.(*ap.Object).Content = n }, func(h any) ap.NaturalLanguageValues { return h.(*ap.Object).Content }},
	{"source.content", false, func(h any, n ap.NaturalLanguageValues) { h.(*ap.Object).Source.Content = n }, func(h any) ap.NaturalLanguageValues {
		return h.(*ap.Object).Source.Content
	}},
	{"preferredUsername", true, func(h any, n ap.NaturalLanguageValues) { h.(*ap.Actor).PreferredUsername = n }, func(h any) ap.NaturalLanguageValues {
		return h.(*ap.Actor).PreferredUsername
	}},
}

// forms: how the text under test is placed in the language list
var c06Forms = []string{"single-untagged", "single-tagged", "map-first", "map-second", "map-cased-tags", "untagged+tagged", "tagged+untagged", "same-text-untagged+tagged", "same-text-two-tags"}

var c06Channels = []string{"json-pkg", "json-method", "gob", "json-then-gob"}

func c06Build(p c06Pos, form string, text []byte) any {
	var n ap.NaturalLanguageValues
	other := ap.LangRefValue{Ref: "fr", Value: ap.Content("autre texte")}
	switch form {
	case "single-untagged":
		n = ap.NaturalLanguageValues{{Ref: ap.NilLangRef, Value: ap.Content(text)}}
	case "single-tagged":
		n = ap.NaturalLanguageValues{{Ref: "en", Value: ap.Content(text)}}
	case "map-first":
		n = ap.NaturalLanguageValues{{Ref: "en", Value: ap.Content(text)}, other}
	case "map-second":
		n = ap.NaturalLanguageValues{other, {Ref: "en", Value: ap.Content(text)}}
	case "untagged+tagged":
		// exactly one untagged and one tagged entry: the text under test is the tagged one
		n = ap.NaturalLanguageValues{{Ref: ap.NilLangRef, Value: ap.Content("plain text")}, {Ref: "en", Value: ap.Content(text)}}
	case "tagged+untagged":
		// ... and here the untagged one
		n = ap.NaturalLanguageValues{{Ref: "fr", Value: ap.Content("autre texte")}, {Ref: ap.NilLangRef, Value: ap.Content(text)}}
	case "same-text-untagged+tagged":
		// the SAME text untagged and under a tag (what several implementations write): neither entry may absorb the other
		n = ap.NaturalLanguageValues{{Ref: ap.NilLangRef, Value: ap.Content(text)}, {Ref: "fr", Value: ap.Content(text)}}
	case "same-text-two-tags":
		n = ap.NaturalLanguageValues{{Ref: "en", Value: ap.Content(text)}, {Ref: "fr", Value: ap.Content(text)}}
	case "map-cased-tags":
		// BCP 47 tags with upper-case subtags: the tags of a map must come back exactly
		n = ap.NaturalLanguageValues{{Ref: "zh-Hant", Value: ap.Content("繁體")}, {Ref: "en-US", Value: ap.Content(text)}, {Ref: "sr-Latn-RS", Value: ap.Content("tekst")}}
	}
	var host any
	if p.actor {
		host = &ap.Actor{ID: "https://example.com/u", Type: ap.PersonType}
	} else {
		host = &ap.Object{ID: "https://example.com/o", Type: ap.NoteType}
	}
	p.set(host, n)
	return host
}

func c06RoundTrip(channel string, host any) (any, []byte, error) {
	switch channel {
	case "json-pkg":
		b, err := ap.MarshalJSON(host.(ap.Item))
		if err != nil {
			return nil, b, err
		}
		v, err := ap.UnmarshalJSON(b)
		disturb(len(b))
		return v, b, err
	case "json-method":
		b, err := jsonEncode("method", host)
		if err != nil {
			return nil, b, err
		}
		t := universeType(host)
		v, err := jsonDecode("method", t, b)
		return v, b, err
	case "json-then-gob":
		// both codecs on ONE instance: the value is written as JSON first (result discarded), then stored with gob and read back
		if _, err := ap.MarshalJSON(host.(ap.Item)); err != nil {
			return nil, nil, err
		}
		fallthrough
	default:
		b, err := ap.GobEncode(host.(ap.Item))
		if err != nil {
			return nil, nil, err
		}
		v, err := ap.GobDecode(b)
		return v, nil, err
	}
}

// c06Class classifies a text for finding keys: which "dangerous" ingredients it contains.
func c06Class(text string) string {
	var cl []string
	has := func(s string) bool { return strings.Contains(text, s) }
	if has(`\`) {
		cl = append(cl, "backslash")
	}
	if has(`"`) {
		cl = append(cl, "quote")
	}
	for _, c := range []string{"\n", "\t", "\r", "\x01", "\x1f"} {
		if has(c) {
			cl = append(cl, "control")
			break
		}
	}
	t := strings.TrimSpace(text)
	if t == "true" || t == "null" || (len(t) > 0 && strings.Trim(t, "0123456789") == "") {
		cl = append(cl, "json-literal")
	} else if len(t) > 0 && (t[0] == '{' || t[0] == '[' || t[0] == '"') {
		cl = append(cl, "json-opening")
	}
	if has("�") {
		cl = append(cl, "U+FFFD")
	}
	for _, r := range text {
		if r > 0x7f && r != 0xfffd {
			cl = append(cl, "non-ascii")
			break
		}
	}
	if len(cl) == 0 {
		return "plain"
	}
	sort.Strings(cl)
	return strings.Join(cl, "+")
}

func init() {
	engine.Register(&engine.Check{
		ID: "C06", Name: "text-bytes", Level: "model_checking",
		Rule: "texts = every sequence of length 1..L over a 32-token alphabet (letters, space, backslash, quote, slash, escape letters n/t/u, 0041, HTML and JSON punctuation, JSON literals 1/42/true/null, LF/TAB/CR, " +
			"control bytes, DEL, 2/3/4-byte UTF-8, U+2028, U+FFFD), all valid UTF-8; positions = name, summary, content, source.content, preferredUsername x forms {single untagged, single tagged, " +
			"first and second slot of a two-entry map} x channels {JSON package functions, JSON methods, gob, JSON-then-gob on one instance (single tokens)}; oracle: bytes after decode == bytes before encode, map tags preserved as a set; " +
			"non-trivial = text with a character outside [a-z ]",
		Assumptions: []string{"texts are valid UTF-8 (the stated domain)"},
		Bound: func(tier string) string {
			if tier == "thorough" {
				return "L = 3 for all positions/forms/channels (33 824 texts x 78); L = 4 for content in all forms and channels (1 048 576 texts x 15); every token at every offset B-4..B+1 for B in 16..4096 (content: all forms and channels; other positions: untagged via the methods), multi-byte/quote/backslash tokens at 8192 and 65536; every JSON decode is followed by two unrelated decodes before the comparison; ten further tokens (bidi isolates and overrides, zero-width space, BOM, NEL, NBSP, U+2029, ALM, a tag character) in texts of length <= 2 and in the boundary family; forms with exactly one untagged and one tagged entry, and with the same text in both entries; every Unicode scalar value (128 consecutive code points per text) in every position, three forms, both codecs; families added after round 5: DESIGN.md 8.11"
			}
			return "L = 3 for all positions/forms/channels (33 824 texts x 78); every token at every offset B-4..B+1 for B in 16..4096 (content: all forms and channels; other positions: untagged via the methods), multi-byte/quote/backslash tokens at 8192 and 65536; every JSON decode is followed by two unrelated decodes before the comparison; ten further tokens (bidi isolates and overrides, zero-width space, BOM, NEL, NBSP, U+2029, ALM, a tag character) in texts of length <= 2 and in the boundary family; forms with exactly one untagged and one tagged entry, and with the same text in both entries; every Unicode scalar value (128 consecutive code points per text) in every position, three forms, both codecs; families added after round 5: DESIGN.md 8.11"
		},
		DeadlineQuick: 5 * time.Minute, DeadlineThorough: 40 * time.Minute,
		Run: c06Run,
	})
}

func c06Run(c *engine.Ctx) {
	L := 3
	var texts [][]int
	var gen func(cur []int)
	gen = func(cur []int) {
		if len(cur) > 0 {
			texts = append(texts, append([]int{}, cur...))
		}
		if len(cur) >= L {
			return
		}
		for i := range c06Tokens {
			if i >= c06Core && len(cur) >= 2 {
				break // the extended tokens appear in texts of length <= 2 (and in the boundary family)
			}
			core := true
			for _, x := range cur {
				if x >= c06Core {
					core = false
				}
			}
			if !core && len(cur) >= 2 {
				break
			}
			gen(append(cur, i))
		}
	}
	gen(nil)
	render := func(seq []int) (string, string) {
		var b, n strings.Builder
		for i, x := range seq {
			b.WriteString(c06Tokens[x])
			if i > 0 {
				n.WriteByte('·')
			}
			n.WriteString(c06TokenNames[x])
		}
		return b.String(), n.String()
	}
	var oneText func(p c06Pos, form, ch string, text, tname string)
	one := func(p c06Pos, form, ch string, seq []int) {
		text, tname := render(seq)
		oneText(p, form, ch, text, tname)
	}
	oneText = func(p c06Pos, form, ch string, text, tname string) {
		class := fmt.Sprintf("C06|%s|%s|%s", ch, p.name, form)
		c.Do(class, func() string { return fmt.Sprintf("%s = %.80q [%s] as %s through %s", p.name, text, tname, form, ch) }, func(t *engine.T) {
			t.Distinct(strings.Trim(text, "abcdefghijklmnopqrstuvwxyz ") != "")
			host := c06Build(p, form, []byte(text))
			back, js, err := c06RoundTrip(ch, host)
			t.Ops(2)
			key := func(sym string) string { return class + "|" + c06Class(text) + "|" + sym }
			if err != nil {
				t.Fail(key("error"), "round trip failed: %v (json %q)", err, js)
				return
			}
			if back == nil || universeType(back) != universeType(host) {
				t.Fail(key("value-lost"), "decoded %T (json %q)", back, js)
				return
			}
			got := p.get(back)
			var gotText []byte
			found := false
			tags := map[string]bool{}
			for _, e := range got {
				tags[string(e.Ref)] = true
			}
			switch form {
			case "single-untagged", "single-tagged":
				if len(got) == 1 {
					gotText, found = got[0].Value, true
				}
			case "map-cased-tags":
				for _, e := range got {
					if e.Ref == "en-US" {
						gotText, found = e.Value, true
					}
				}
				if len(got) != 3 || !tags["en-US"] || !tags["zh-Hant"] || !tags["sr-Latn-RS"] {
					t.Fail(key("map-tags"), "language tags after decode: %q (json %q)", got, js)
					if !found {
						return
					}
				}
			case "untagged+tagged":
				for _, e := range got {
					if e.Ref == "en" {
						gotText, found = e.Value, true
					}
				}
				if len(got) != 2 || !tags["en"] || !(tags["-"] || tags[""]) {
					t.Fail(key("map-tags"), "language tags after decode: %q (json %q)", got, js)
				}
			case "same-text-untagged+tagged", "same-text-two-tags":
				first := "en"
				if form == "same-text-untagged+tagged" {
					first = "-"
				}
				var other []byte
				for _, e := range got {
					r := string(e.Ref)
					if r == "" {
						r = "-"
					}
					if r == first && !found {
						gotText, found = e.Value, true
					} else if r == "fr" {
						other = e.Value
					}
				}
				if len(got) != 2 || !tags["fr"] || !(tags[first] || first == "-" && tags[""]) {
					t.Fail(key("map-tags"), "language tags after decode: %q (json %q)", got, js)
				} else if !bytes.Equal(other, []byte(text)) {
					t.Fail(key("text-changed"), "the second entry %q came back as %q (json %q)", text, other, js)
				}
			case "tagged+untagged":
				for _, e := range got {
					if e.Ref == ap.NilLangRef || e.Ref == "" {
						gotText, found = e.Value, true
					}
				}
				if len(got) != 2 || !tags["fr"] || !(tags["-"] || tags[""]) {
					t.Fail(key("map-tags"), "language tags after decode: %q (json %q)", got, js)
				}
			default:
				for _, e := range got {
					if e.Ref == "en" {
						gotText, found = e.Value, true
					}
				}
				if len(got) != 2 || !tags["en"] || !tags["fr"] {
					t.Fail(key("map-tags"), "language tags after decode: %v (json %q)", got, js)
				}
			}
			if !found {
				t.Fail(key("text-lost"), "no such entry after decode: %q (json %q)", got, js)
				return
			}
			if !bytes.Equal(gotText, []byte(text)) {
				t.Fail(key("text-changed"), "%q came back as %q (json %q)", text, gotText, js)
			}
		})
	}
	for _, p := range c06Positions {
		for _, form := range c06Forms {
			for _, ch := range c06Channels {
				for _, seq := range texts {
					if ch == "json-then-gob" && len(seq) > 1 {
						continue // both codecs on one instance: single tokens (what matters here is what the first codec does to the list)
					}
					one(p, form, ch, seq)
				}
			}
		}
	}
	// boundary lengths: every token right before, across and after every power-of-two offset a buffered or chunked
	// implementation could use
	for _, B := range []int{16, 32, 64, 128, 256, 512, 1024, 2048, 4096, 8192, 65536} {
		for off := B - 4; off <= B+1; off++ {
			for ti, tok := range c06Tokens {
				if B > 4096 && len(tok) < 2 && tok != `"` && tok != `\` {
					continue
				}
				text := strings.Repeat("a", off) + tok + "zz"
				tname := fmt.Sprintf("a*%d·%s·zz", off, c06TokenNames[ti])
				for pi, p := range c06Positions {
					for _, form := range c06Forms {
						for _, ch := range c06Channels {
							if ch == "json-then-gob" || (pi != 2 && (form != "single-untagged" || ch != "json-method")) {
								continue
							}
							oneText(p, form, ch, text, tname)
						}
					}
				}
			}
		}
	}
	// every Unicode scalar value (all 1 112 064 of them, 128 consecutive code points per text), every position, three forms, both codecs
	for _, rc := range universe.RuneChunks(128) {
		for _, p := range c06Positions {
			for _, form := range []string{"single-untagged", "map-second", "same-text-untagged+tagged"} {
				for _, ch := range []string{"json-method", "gob"} {
					oneText(p, form, ch, rc.S, rc.Name)
				}
			}
		}
	}
	// every type that has a text property, every text property it has (name on all 14 structs incl. Link, summary and content on
	// the 13 object-like ones, preferredUsername on Actor): single tokens and the texts that look like markup, character references
	// or escapes to ANY layer (HTML, URL, JSON, Go), two forms, three channels. A type-specific loader or writer that treats one
	// type's text differently from the shared one shows here.
	{
		texts := append([]string{}, c06Tokens...)
		texts = append(texts, "Tom &amp; Jerry", "&lt;3", "&#128512;", "&#x27;", "&copy 2024", "&nbsp;", "a%20b", "%E2%82%AC", "100%", "\\u00e9", "\\n", "&quot;", "<p>x</p>", "</script>", "`x`", "${x}", "{{x}}", "\\x41", "a\u0301", "\u00e1", "\ufb01")
		for i := range universe.Structs {
			st := &universe.Structs[i]
			for _, fname := range []string{"Name", "Summary", "Content", "PreferredUsername"} {
				sf, ok := st.Type.FieldByName(fname)
				if !ok || sf.Type != reflect.TypeOf(ap.NaturalLanguageValues{}) {
					continue
				}
				if st.Name == "Object" || st.Name == "Actor" && fname == "PreferredUsername" {
					continue // covered above with the full alphabet
				}
				for _, form := range []string{"single-untagged", "map-second"} {
					for _, ch := range []string{"json-pkg", "json-method", "gob"} {
						st, fname, form, ch := st, fname, form, ch
						class := fmt.Sprintf("C06|%s|%s.%s|%s", ch, st.Name, strings.ToLower(fname[:1])+fname[1:], form)
						c.Do(class, func() string {
							return fmt.Sprintf("%s.%s = each of %d texts as %s through %s", st.Name, fname, len(texts), form, ch)
						}, func(t *engine.T) {
							t.Distinct(true)
							for _, text := range texts {
								n := ap.NaturalLanguageValues{{Ref: ap.NilLangRef, Value: ap.Content(text)}}
								if form == "map-second" {
									n = ap.NaturalLanguageValues{{Ref: "fr", Value: ap.Content("autre texte")}, {Ref: "en", Value: ap.Content(text)}}
								}
								host := reflect.New(st.Type)
								host.Elem().FieldByName("ID").Set(reflect.ValueOf(ap.IRI("https://example.com/h")))
								host.Elem().FieldByName("Type").Set(reflect.ValueOf(ap.ActivityVocabularyType(st.SpecificName())))
								host.Elem().FieldByName(fname).Set(reflect.ValueOf(n))
								back, js, err := c06RoundTrip(ch, host.Interface())
								t.Ops(2)
								key := func(sym string) string { return class + "|" + c06Class(text) + "|" + sym }
								if err != nil || back == nil || universeType(back) != st.Type {
									t.Fail(key("value-lost"), "round trip of %q gave %T, %v (json %q)", text, back, err, js)
									continue
								}
								bv := reflect.ValueOf(back)
								if bv.Kind() == reflect.Pointer {
									bv = bv.Elem()
								}
								got := bv.FieldByName(fname).Interface().(ap.NaturalLanguageValues)
								want := len(n)
								found := false
								for _, e := range got {
									if (form == "single-untagged" || e.Ref == "en") && bytes.Equal(e.Value, []byte(text)) {
										found = true
									}
								}
								if len(got) != want || !found {
									t.Fail(key("text-changed"), "%s.%s: %q came back as %q (json %q)", st.Name, fname, text, got, js)
								}
							}
							t.AddEvals(int64(len(texts))-1, int64(len(texts))-1)
						})
					}
				}
			}
		}
	}
	// the NaturalLanguageValues method pair on its own
	for _, form := range []string{"single-untagged", "map-first", "map-second"} {
		for _, seq := range texts {
			nlvOne(c, form, seq, render)
		}
	}
	if c.Quick() {
		return
	}
	// L = 4 for content, all forms and channels
	var gen4 func(cur []int)
	gen4 = func(cur []int) {
		if len(cur) == 4 {
			for _, form := range c06Forms {
				for _, ch := range c06Channels[:3] {
					one(c06Positions[2], form, ch, append([]int{}, cur...))
				}
			}
			return
		}
		for i := range c06Tokens[:c06Core] {
			gen4(append(cur, i))
		}
	}
	gen4(nil)
}

// nlvOne exercises NaturalLanguageValues.MarshalJSON / (*NaturalLanguageValues).UnmarshalJSON directly.
func nlvOne(c *engine.Ctx, form string, seq []int, render func([]int) (string, string)) {
	text, tname := render(seq)
	class := "C06|nlv-method|NaturalLanguageValues|" + form
	c.Do(class, func() string {
		return fmt.Sprintf("NaturalLanguageValues %q [%s] as %s through its own MarshalJSON/UnmarshalJSON", text, tname, form)
	}, func(t *engine.T) {
		t.Distinct(strings.Trim(text, "abcdefghijklmnopqrstuvwxyz ") != "")
		var n ap.NaturalLanguageValues
		other := ap.LangRefValue{Ref: "fr", Value: ap.Content("autre texte")}
		switch form {
		case "single-untagged":
			n = ap.NaturalLanguageValues{{Ref: ap.NilLangRef, Value: ap.Content(text)}}
		case "map-first":
			n = ap.NaturalLanguageValues{{Ref: "en", Value: ap.Content(text)}, other}
		default:
			n = ap.NaturalLanguageValues{other, {Ref: "en", Value: ap.Content(text)}}
		}
		b, err := n.MarshalJSON()
		key := func(sym string) string { return class + "|" + c06Class(text) + "|" + sym }
		if err != nil || len(b) == 0 {
			t.Fail(key("error"), "MarshalJSON: %d bytes, %v", len(b), err)
			return
		}
		var back ap.NaturalLanguageValues
		if err := back.UnmarshalJSON(b); err != nil {
			t.Fail(key("error"), "UnmarshalJSON(%q): %v", b, err)
			return
		}
		t.Ops(2)
		var got []byte
		found := false
		for _, e := range back {
			if (form == "single-untagged" && len(back) == 1) || e.Ref == "en" {
				got, found = e.Value, true
			}
		}
		if form != "single-untagged" && len(back) != 2 {
			t.Fail(key("map-tags"), "entries after decode: %q (json %q)", back, b)
		}
		if !found {
			t.Fail(key("text-lost"), "entries after decode: %q (json %q)", back, b)
			return
		}
		if !bytes.Equal(got, []byte(text)) {
			t.Fail(key("text-changed"), "%q came back as %q (json %q)", text, got, b)
		}
	})
}
