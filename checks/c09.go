package checks

import (
	"fmt"
	"reflect"
	"runtime"
	"strings"
	"time"

	ap "github.com/go-ap/activitypub"

	"verif/internal/canon"
	"verif/internal/engine"
	"verif/internal/universe"
)

// C09 — item equality is reflexive, nil-correct and identity-sensitive (DESIGN.md §3 C09, reading D4).

func init() {
	engine.Register(&engine.Check{
		ID: "C09", Name: "items-equal", Level: "model_checking",
		Rule: "reflexivity (x against itself and against an independently built deep-equal twin) over the reflection-derived universe (level 0, level 1, saturated, depth 2; thorough adds level 2) " +
			"plus bare IRIs, ItemCollection, IRIs, links, value forms; the complete 15x15 nil matrix and nil x non-nil in both orders; identity variants (host, port, path, query), type variants and " +
			"single-property changes (two different set values per applicable shape, both argument orders) for every object-core property except mediaType/source and the six activity properties, on every struct; " +
			"all ordered pairs of a sub-universe (thorough: incl. level 1) for 'equal => ids equivalent and types equal ignoring case'; non-trivial = value with a property beyond id/type, or a pair of distinct values",
		Assumptions: []string{"reading D4: nil-like = untyped nil and nil pointers of the 14 struct types; a property change replaces a set value by a different set value"},
		Bound: func(tier string) string {
			if tier == "thorough" {
				return "reflexivity over levels 0,1,2,saturated and depth 2 (all shapes); change pairs on all 13 object structs x all shapes; ~90k ordered pairs for the soundness clause; lists of 8..130 members (mixed, id-less only, IRIs) for reflexivity; long-list, tag-only and extra-entry changes; ids differing only inside an IPv6 literal, in the port after one, in a trailing slash of a query value; instants differing by 1 ns / 250 ms; families added after round 5: DESIGN.md 8.11"
			}
			return "reflexivity over levels 0,1,saturated and depth 2 (q shapes); nil matrix; change pairs on all 13 object structs x all shapes; all ordered pairs of the level-0 values and bare lists for the soundness clause; lists of 8..130 members (mixed, id-less only, IRIs) for reflexivity; long-list, tag-only and extra-entry changes; ids differing only inside an IPv6 literal, in the port after one, in a trailing slash of a query value; instants differing by 1 ns / 250 ms; families added after round 5: DESIGN.md 8.11"
		},
		DeadlineQuick: 6 * time.Minute,
		Run:           c09Run,
	})
}

type c09Variant struct {
	shape string
	mk    func(v int) any // v = 1 or 2: two different set values of the same shape
}

func c09IRI(v int, s string) ap.IRI { return ap.IRI(fmt.Sprintf("https://example.com/%s%d", s, v)) }

func c09ItemVariants() []c09Variant {
	return []c09Variant{
		{"iri", func(v int) any { return c09IRI(v, "i") }},
		{"obj", func(v int) any { return &ap.Object{ID: c09IRI(v, "o"), Type: ap.NoteType} }},
		{"actor", func(v int) any { return &ap.Actor{ID: c09IRI(v, "p"), Type: ap.PersonType} }},
		{"obj-noid", func(v int) any {
			return &ap.Object{Type: ap.NoteType, Name: ap.NaturalLanguageValues{{Ref: "-", Value: ap.Content(fmt.Sprintf("anon%d", v))}}}
		}},
		{"link", func(v int) any { return &ap.Link{ID: c09IRI(v, "l"), Type: ap.LinkType, Href: c09IRI(v, "h")} }},
		{"list-iri", func(v int) any { return ap.ItemCollection{ap.IRI("https://example.com/same"), c09IRI(v, "m")} }},
		{"list-obj", func(v int) any { return ap.ItemCollection{&ap.Object{ID: c09IRI(v, "lo"), Type: ap.NoteType}} }},
	}
}

func c09Variants(k universe.Kind) []c09Variant {
	switch k {
	case universe.KItem:
		return c09ItemVariants()
	case universe.KItems:
		return []c09Variant{
			{"list-iri", func(v int) any { return ap.ItemCollection{ap.IRI("https://example.com/same"), c09IRI(v, "m")} }},
			{"list1-iri", func(v int) any { return ap.ItemCollection{c09IRI(v, "s")} }},
			{"list-obj", func(v int) any { return ap.ItemCollection{&ap.Object{ID: c09IRI(v, "lo"), Type: ap.NoteType}} }},
			{"list17-last", func(v int) any { return c09Long(17, 16, v) }},
			{"list33-middle", func(v int) any { return c09Long(33, 20, v) }},
			{"list65-last", func(v int) any { return c09Long(65, 64, v) }},
			{"list-length", func(v int) any { return c09Long(16+v, -1, 0) }},
			// a change INSIDE a member that has an id (its name), at the first / middle / last position of lists of 3..120 objects
			{"list3-member-name", func(v int) any { return c09Objects(3, 1, v) }},
			{"list49-member-name", func(v int) any { return c09Objects(49, 48, v) }},
			{"list50-member-name", func(v int) any { return c09Objects(50, 0, v) }},
			{"list51-member-name", func(v int) any { return c09Objects(51, 25, v) }},
			{"list100-member-name", func(v int) any { return c09Objects(100, 99, v) }},
			{"list120-member-name", func(v int) any { return c09Objects(120, 60, v) }},
		}
	case universe.KNLV:
		return []c09Variant{
			{"lang1", func(v int) any {
				return ap.NaturalLanguageValues{{Ref: "-", Value: ap.Content(fmt.Sprintf("text %d", v))}}
			}},
			{"lang2", func(v int) any {
				return ap.NaturalLanguageValues{{Ref: "en", Value: ap.Content("same")}, {Ref: "fr", Value: ap.Content(fmt.Sprintf("texte %d", v))}}
			}},
			{"lang2-first", func(v int) any {
				return ap.NaturalLanguageValues{{Ref: "en", Value: ap.Content(fmt.Sprintf("text %d", v))}, {Ref: "fr", Value: ap.Content("pareil")}}
			}},
			{"lang-tag-only", func(v int) any {
				// same texts, an untagged entry present, only the tag of the second entry differs
				return ap.NaturalLanguageValues{{Ref: "-", Value: ap.Content("Hello")}, {Ref: []ap.LangRef{"", "en", "fr"}[v], Value: ap.Content("Hello")}}
			}},
			{"lang-extra-entry", func(v int) any {
				n := ap.NaturalLanguageValues{{Ref: "en", Value: ap.Content("same")}, {Ref: "fr", Value: ap.Content("pareil")}, {Ref: "de", Value: ap.Content("gleich")}}
				return n[:v]
			}},
			{"lang-invalid-utf8", func(v int) any {
				// texts are byte strings: two different ill-formed sequences are two different texts
				return ap.NaturalLanguageValues{{Ref: "-", Value: ap.Content([]string{"", "caf\xe9", "caf\xe8"}[v])}}
			}},
			{"lang-invalid-utf8-run", func(v int) any {
				return ap.NaturalLanguageValues{{Ref: "en", Value: ap.Content("one" + strings.Repeat("\x85", v) + "two")}, {Ref: "fr", Value: ap.Content("x")}}
			}},
			{"lang-long-tail", func(v int) any {
				return ap.NaturalLanguageValues{{Ref: "-", Value: ap.Content(strings.Repeat("a", 1023+v*0) + fmt.Sprint(v))}}
			}},
		}
	case universe.KTime:
		return []c09Variant{{"time", func(v int) any { return universe.T1.Add(time.Duration(v) * time.Hour) }},
			{"time-250ms", func(v int) any { return universe.T1.Add(time.Duration(v) * 250 * time.Millisecond) }},
			{"time-1ns", func(v int) any { return universe.T1.Add(time.Duration(v)) }},
			{"time-zone-and-second", func(v int) any {
				return universe.T1.Add(time.Duration(v) * time.Second).In(time.FixedZone("", v*3600))
			}}}
	case universe.KDuration:
		return []c09Variant{{"duration", func(v int) any { return time.Duration(v) * 90 * time.Second }}}
	}
	return nil
}

var c09ActivityProps = map[string]bool{"actor": true, "object": true, "target": true, "result": true, "origin": true, "instrument": true}

// c09CoreTerms are the object-core properties whose change must make a copy unequal.
var c09Excluded = map[string]bool{"id": true, "type": true, "mediaType": true, "source": true}

func c09Eq(t *engine.T, a, b ap.Item) bool {
	t.Ops(1)
	return ap.ItemsEqual(a, b)
}

func c09Run(c *engine.Ctx) {
	// ---- reflexivity over the universe
	refl := func(r universe.Recipe) {
		class := "C09|reflexive|" + r.Struct.Name
		c.Do(class, func() string { return "ItemsEqual(x, x) for x = " + r.String() }, func(t *engine.T) {
			x, twin := r.Item(), r.Item()
			cn := canon.Of(x, canon.Raw)
			t.State(engine.Hash64("refl", cn.String()), len(r.Sets) > 0)
			if !c09Eq(t, x, x) {
				c09ReflFail(t, class, "same-value", r, cn)
			}
			if !c09Eq(t, x, twin) || !c09Eq(t, twin, x) {
				c09ReflFail(t, class, "deep-equal-twin", r, cn)
			}
		})
	}
	for i := range universe.Structs {
		s := &universe.Structs[i]
		universe.Level0(s, refl)
		universe.Level1(s, universe.AnyCodec, false, refl)
		universe.Level1(s, universe.AnyCodec, false, func(r universe.Recipe) { r.Value = true; refl(r) })
		universe.Saturated(s, universe.AnyCodec, refl)
	}
	var emb []universe.Shape
	universe.Depth2Embedded(universe.AnyCodec, c.Quick(), func(sh universe.Shape) { emb = append(emb, sh) })
	for i := range universe.Structs {
		s := &universe.Structs[i]
		fields := s.ItemFields()
		if c.Quick() && len(fields) > 6 {
			// quick: every struct, a rotating window of item positions (all positions are covered across structs)
			fields = append(fields[i%len(fields):], fields[:i%len(fields)]...)[:6]
		}
		for _, f := range fields {
			for _, sh := range emb {
				refl(universe.Recipe{Struct: s, TypeName: s.SpecificName(), Sets: []universe.Set{{Field: f, Shape: universe.WrapForField(f, sh)}}})
			}
		}
	}
	if !c.Quick() {
		for i := range universe.Structs {
			universe.Level2(&universe.Structs[i], universe.AnyCodec, refl)
		}
	}
	// bare IRIs and lists
	bare := []struct {
		name string
		mk   func() ap.Item
	}{
		{"IRI", func() ap.Item { return ap.IRI("https://example.com/x") }},
		{"IRI-query", func() ap.Item { return ap.IRI("https://example.com/x?a=1&b=2#f") }},
		{"ItemCollection[iri,iri]", func() ap.Item {
			return ap.ItemCollection{ap.IRI("https://example.com/1"), ap.IRI("https://example.com/2")}
		}},
		{"ItemCollection[obj,iri]", func() ap.Item {
			return ap.ItemCollection{&ap.Object{ID: "https://example.com/1", Type: ap.NoteType}, ap.IRI("https://example.com/2")}
		}},
		{"ItemCollection[obj-noid]", func() ap.Item {
			return ap.ItemCollection{&ap.Object{Type: ap.NoteType, Name: ap.NaturalLanguageValues{{Ref: "-", Value: ap.Content("anon")}}}}
		}},
		{"ItemCollection[link]", func() ap.Item {
			return ap.ItemCollection{&ap.Link{ID: "https://example.com/l", Type: ap.LinkType, Href: "https://example.com/h"}}
		}},
		{"*ItemCollection[iri]", func() ap.Item { c := ap.ItemCollection{ap.IRI("https://example.com/1")}; return &c }},
		{"ItemCollection[]", func() ap.Item { return ap.ItemCollection{} }},
		{"IRIs[2]", func() ap.Item { return ap.IRIs{"https://example.com/1", "https://example.com/2"} }},
		{"IRIs[1]", func() ap.Item { return ap.IRIs{"https://example.com/1"} }},
		{"*IRIs[1]", func() ap.Item { c := ap.IRIs{"https://example.com/1"}; return &c }},
	}
	// lists whose members are equal to each other (the same IRI or object twice, next to a different one): a list is equal to itself
	// however its members relate to one another
	type bareT = struct {
		name string
		mk   func() ap.Item
	}
	obj := func(id string) ap.Item { return &ap.Object{ID: ap.IRI(id), Type: ap.NoteType} }
	bare = append(bare,
		bareT{"ItemCollection[a,a]", func() ap.Item {
			return ap.ItemCollection{ap.IRI("https://example.com/1"), ap.IRI("https://example.com/1")}
		}},
		bareT{"ItemCollection[a,a,b]", func() ap.Item {
			return ap.ItemCollection{ap.IRI("https://example.com/1"), ap.IRI("https://example.com/1"), ap.IRI("https://example.com/2")}
		}},
		bareT{"ItemCollection[b,a,a]", func() ap.Item {
			return ap.ItemCollection{ap.IRI("https://example.com/2"), ap.IRI("https://example.com/1"), ap.IRI("https://example.com/1")}
		}},
		bareT{"ItemCollection[obj a,obj a]", func() ap.Item { return ap.ItemCollection{obj("https://example.com/1"), obj("https://example.com/1")} }},
		bareT{"ItemCollection[obj a,iri a,obj b]", func() ap.Item {
			return ap.ItemCollection{obj("https://example.com/1"), ap.IRI("https://example.com/1"), obj("https://example.com/2")}
		}},
		bareT{"ItemCollection[a,a/]", func() ap.Item {
			return ap.ItemCollection{ap.IRI("https://example.com/1"), ap.IRI("https://example.com/1/")}
		}},
		bareT{"ItemCollection[nil,nil,a]", func() ap.Item { return ap.ItemCollection{nil, nil, ap.IRI("https://example.com/1")} }},
		bareT{"IRIs[a,a]", func() ap.Item { return ap.IRIs{"https://example.com/1", "https://example.com/1"} }},
		bareT{"IRIs[a,a,b]", func() ap.Item {
			return ap.IRIs{"https://example.com/1", "https://example.com/1", "https://example.com/2"}
		}},
		bareT{"IRIs[a,A]", func() ap.Item { return ap.IRIs{"https://example.com/a", "https://EXAMPLE.com/A"} }},
	)
	// ids that are not URLs: every sequence of at most 4 tokens over {a, #, ://, ?, /, :, %, é} as a bare IRI and as the id of an
	// object - the comparison is reflexive, symmetric and does not panic whatever the separators and their order
	{
		tokens := []string{"a", "#", "://", "?", "/", ":", "%", "é"}
		var ids []string
		var gen func(cur string, n int)
		gen = func(cur string, n int) {
			if n > 0 {
				ids = append(ids, cur)
			}
			if n == 4 {
				return
			}
			for _, tk := range tokens {
				gen(cur+tk, n+1)
			}
		}
		gen("", 0)
		for k := 0; k < len(ids); k += 64 {
			lo, hi := k, k+64
			if hi > len(ids) {
				hi = len(ids)
			}
			c.Do("C09|reflexive|odd-ids", func() string {
				return fmt.Sprintf("ItemsEqual(x, x), symmetry against the next id, for ids %q..%q (bare IRI, object id, one-member lists)", ids[lo], ids[hi-1])
			}, func(t *engine.T) {
				t.Distinct(true)
				for j := lo; j < hi; j++ {
					id, next := ids[j], ids[(j+1)%len(ids)]
					t.Step(func() string { return fmt.Sprintf("id %q", id) })
					forms := []func(string) ap.Item{
						func(s string) ap.Item { return ap.IRI(s) },
						func(s string) ap.Item { return &ap.Object{ID: ap.IRI(s), Type: ap.NoteType} },
						func(s string) ap.Item { return ap.ItemCollection{ap.IRI(s)} },
						func(s string) ap.Item { return ap.IRIs{ap.IRI(s)} },
					}
					for fi, f := range forms {
						x, twin, y := f(id), f(id), f(next)
						if !c09Eq(t, x, x) || !c09Eq(t, x, twin) || !c09Eq(t, twin, x) {
							t.Fail(fmt.Sprintf("C09|reflexive|odd-ids|form%d|not-reflexive", fi), "ItemsEqual(x, x) = false for id %q (form %d)", id, fi)
						}
						if c09Eq(t, x, y) != c09Eq(t, y, x) {
							t.Fail(fmt.Sprintf("C09|reflexive|odd-ids|form%d|not-symmetric", fi), "ItemsEqual is not symmetric on ids %q, %q (form %d)", id, next, fi)
						}
					}
				}
				t.AddEvals(int64(hi-lo)*4-1, int64(hi-lo)*4-1)
			})
		}
	}
	for _, n := range []int{8, 15, 16, 17, 18, 31, 32, 33, 63, 64, 65, 130} {
		n := n
		bare = append(bare, struct {
			name string
			mk   func() ap.Item
		}{fmt.Sprintf("ItemCollection[long %d]", n), func() ap.Item { return universe.LongList(&universe.Gen{}, n) }},
			struct {
				name string
				mk   func() ap.Item
			}{fmt.Sprintf("ItemCollection[%d objects without id]", n), func() ap.Item {
				l := ap.ItemCollection{}
				for i := 0; i < n; i++ {
					l = append(l, &ap.Object{Type: ap.NoteType, Name: ap.NaturalLanguageValues{{Ref: "-", Value: ap.Content(fmt.Sprintf("anonymous %d", i))}}})
				}
				return l
			}},
			struct {
				name string
				mk   func() ap.Item
			}{fmt.Sprintf("IRIs[long %d]", n), func() ap.Item {
				l := ap.IRIs{}
				g := &universe.Gen{}
				for i := 0; i < n; i++ {
					l = append(l, g.IRI())
				}
				return l
			}})
	}
	for _, b := range bare {
		b := b
		class := "C09|reflexive|" + strings.SplitN(b.name, "[", 2)[0]
		c.Do(class, func() string { return "ItemsEqual(x, x) for x = " + b.name }, func(t *engine.T) {
			t.Distinct(true)
			x, twin := b.mk(), b.mk()
			if !c09Eq(t, x, x) {
				t.Fail(class+"|"+b.name+"|same-value", "ItemsEqual(x, x) = false for %s", b.name)
			}
			if !c09Eq(t, x, twin) || !c09Eq(t, twin, x) {
				t.Fail(class+"|"+b.name+"|deep-equal-twin", "ItemsEqual(x, twin) = false for %s", b.name)
			}
		})
	}

	// ---- chains: a value nested in itself through every item property of its type (single item, or the only member of a list),
	// compared with a twin built the same way. The comparison is true and its cost is proportional to the depth. The cost is
	// measured in ALLOCATIONS (deterministic for a single goroutine, unlike time): a comparison that does the work of a level twice
	// allocates 2^8 = 256 times more at depth 16 than at depth 8, a linear one twice as much; the bound is 8x. Only when the growth
	// is in order is the chain of depth 130 compared (it would not return otherwise).
	for i := range universe.Structs {
		s := &universe.Structs[i]
		if s.Name == "Link" {
			continue
		}
		class := "C09|chain|" + s.Name
		c.Do(class, func() string {
			return fmt.Sprintf("ItemsEqual(chain, twin) for chains of 8, 16 and 130 %s values through each of its item properties", s.SpecificName())
		}, func(t *engine.T) {
			t.Distinct(true)
			n := int64(0)
			for _, f := range s.ItemFields() {
				if f.Term == "id" || f.Term == "type" {
					continue
				}
				f := f
				mk := func(depth int) ap.Item {
					var cur ap.Item = ap.IRI("https://example.com/leaf")
					for d := 0; d < depth; d++ {
						p := reflect.New(s.Type)
						p.Elem().FieldByName("ID").Set(reflect.ValueOf(ap.IRI(fmt.Sprintf("https://example.com/chain/%d", d))))
						p.Elem().FieldByName("Type").Set(reflect.ValueOf(ap.ActivityVocabularyType(s.SpecificName())))
						fv := p.Elem().Field(f.Index)
						if f.Kind == universe.KItems {
							fv.Set(reflect.ValueOf(ap.ItemCollection{cur}))
						} else {
							fv.Set(reflect.ValueOf(cur))
						}
						cur = p.Interface().(ap.Item)
					}
					return cur
				}
				t.Step(func() string { return "chain through " + f.Term })
				cost := func(depth int) (uint64, bool) {
					x, twin := mk(depth), mk(depth)
					var before, after runtime.MemStats
					runtime.ReadMemStats(&before)
					eq := c09Eq(t, x, twin) && c09Eq(t, twin, x)
					runtime.ReadMemStats(&after)
					return after.Mallocs - before.Mallocs, eq
				}
				a8, eq8 := cost(8)
				a16, eq16 := cost(16)
				n += 2
				if !eq8 || !eq16 {
					t.Fail(class+"|"+f.Term+"|unequal", "a chain of %s values through %s is not equal to its twin", s.SpecificName(), f.Term)
				}
				if a16 > 8*a8+2000 {
					t.Fail(class+"|"+f.Term+"|super-linear", "comparing two chains of %s values through %s costs %d allocations at depth 8 and %d at depth 16 (x%d): the work of a level is done more than once, the cost doubles with every level (a chain of 40 needs 2^40 steps)",
						s.SpecificName(), f.Term, a8, a16, a16/(a8+1))
					continue
				}
				x, twin := mk(130), mk(130)
				if !c09Eq(t, x, twin) || !c09Eq(t, twin, x) || !c09Eq(t, x, x) {
					t.Fail(class+"|"+f.Term+"|unequal", "a chain of 130 %s values through %s is not equal to its twin", s.SpecificName(), f.Term)
				}
				n++
			}
			t.AddEvals(n-1, n-1)
		})
	}

	// ---- nil matrix
	type nilLike struct {
		name string
		it   ap.Item
	}
	nils := []nilLike{{"nil", nil}}
	for i := range universe.Structs {
		s := &universe.Structs[i]
		nils = append(nils, nilLike{"(*" + s.Name + ")(nil)", reflect.Zero(reflect.PointerTo(s.Type)).Interface().(ap.Item)})
	}
	var nonNil []universe.Recipe
	for i := range universe.Structs {
		s := &universe.Structs[i]
		nonNil = append(nonNil, universe.Recipe{Struct: s, TypeName: s.SpecificName()}, universe.Recipe{Struct: s, TypeName: s.SpecificName(), Value: true},
			universe.Recipe{Struct: s, TypeName: "", NoID: true}) // the empty value is not nil
	}
	for _, n1 := range nils {
		n1 := n1
		class := "C09|nil|" + n1.name
		c.Do(class, func() string {
			return n1.name + " against every nil-like and every non-nil representative, both orders"
		}, func(t *engine.T) {
			t.Distinct(true)
			for _, n2 := range nils {
				if !c09Eq(t, n1.it, n2.it) {
					t.Fail(class+"|nil-nil-unequal|"+n2.name, "ItemsEqual(%s, %s) = false", n1.name, n2.name)
				}
			}
			others := []ap.Item{ap.IRI("https://example.com/x"), ap.ItemCollection{ap.IRI("https://example.com/x")}, ap.IRIs{"https://example.com/x"}}
			names := []string{"IRI", "ItemCollection", "IRIs"}
			for _, r := range nonNil {
				others = append(others, r.Item())
				names = append(names, r.String())
			}
			for k, x := range others {
				if c09Eq(t, n1.it, x) {
					t.Fail(class+"|nil-equals-nonnil|"+structNameOf(x), "ItemsEqual(%s, %s) = true", n1.name, names[k])
				}
				if c09Eq(t, x, n1.it) {
					t.Fail(class+"|nonnil-equals-nil|"+structNameOf(x), "ItemsEqual(%s, %s) = true", names[k], n1.name)
				}
			}
			t.AddEvals(int64(len(nils)+2*len(others))-1, int64(len(nils)+2*len(others))-1)
		})
	}

	// ---- identity and type variants, single-property changes
	idVariants := []struct{ dim, a, b string }{
		{"host", "https://example.com/o/1", "https://example.org/o/1"},
		{"port", "https://example.com/o/1", "https://example.com:8443/o/1"},
		{"path", "https://example.com/o/1", "https://example.com/o/2"},
		{"path-depth", "https://example.com/o/1", "https://example.com/o/1/x"},
		{"query", "https://example.com/o?x=1", "https://example.com/o?x=2"},
		{"query-key", "https://example.com/o?x=1", "https://example.com/o?y=1"},
		{"query-present", "https://example.com/o", "https://example.com/o?x=1"},
		{"ipv6-address", "https://[2001:db8::1]/o/1", "https://[2001:db8::2]/o/1"},
		{"ipv6-address-dotted", "https://[2001:db8::1]/o/./1", "https://[2001:db8::2]/o/1"},
		{"ipv6-port", "https://[::1]:3000/o/1/", "https://[::1]:4000/o/1"},
		{"ipv6-short", "http://[::1]/o/1/", "http://[::2]/o/1"},
		{"query-value-slash", "https://example.com/o?dir=/in/", "https://example.com/o?dir=/in"},
		{"userinfo-host", "https://a@example.com/o/1/", "https://a@example.org/o/1"},
	}
	// every pair of different printable ASCII characters (and DEL) that are not the two cases of one letter, as one byte of the path
	// and - letters excepted - of a query value: the ids differ, the objects are never equal
	c.Do("C09|id-differs|Object|byte-pairs", func() string {
		return "objects whose ids differ in one byte of the path / of a query value, all pairs of printable ASCII characters"
	}, func(t *engine.T) {
		t.Distinct(true)
		n := int64(0)
		fold := func(ch byte) byte {
			if ch >= 'A' && ch <= 'Z' {
				return ch + 32
			}
			return ch
		}
		for a := byte(0x21); a <= 0x7f; a++ {
			for b := byte(0x21); b <= 0x7f; b++ {
				if fold(a) == fold(b) || strings.IndexByte("#?%/", a) >= 0 || strings.IndexByte("#?%/", b) >= 0 {
					continue
				}
				pairs := [][2]string{{"https://example.com/u/" + string(a) + "x", "https://example.com/u/" + string(b) + "x"}}
				letter := func(ch byte) bool { return fold(ch) >= 'a' && fold(ch) <= 'z' }
				if !letter(a) && !letter(b) && strings.IndexByte("&=+;", a) < 0 && strings.IndexByte("&=+;", b) < 0 {
					pairs = append(pairs, [2]string{"https://example.com/q?k=" + string(a), "https://example.com/q?k=" + string(b)})
				}
				for _, p := range pairs {
					x, y := &ap.Object{ID: ap.IRI(p[0]), Type: ap.NoteType}, &ap.Object{ID: ap.IRI(p[1]), Type: ap.NoteType}
					if c09Eq(t, x, y) || c09Eq(t, y, x) {
						t.Fail("C09|id-differs|Object|byte-pairs|equal", "objects with ids %q and %q compare equal", p[0], p[1])
					}
					n++
				}
			}
		}
		t.AddEvals(n-1, n-1)
	})
	for i := range universe.Structs {
		s := &universe.Structs[i]
		if s.Name == "Link" {
			continue
		}
		mkBase := func(id string, typ string, ptr bool) ap.Item {
			p := reflect.New(s.Type)
			p.Elem().FieldByName("ID").Set(reflect.ValueOf(ap.IRI(id)))
			p.Elem().FieldByName("Type").Set(reflect.ValueOf(ap.ActivityVocabularyType(typ)))
			p.Elem().FieldByName("Name").Set(reflect.ValueOf(ap.NaturalLanguageValues{{Ref: "-", Value: ap.Content("same name")}}))
			if ptr {
				return p.Interface().(ap.Item)
			}
			return p.Elem().Interface().(ap.Item)
		}
		for _, iv := range idVariants {
			for _, ptr := range []bool{true, false} {
				iv, ptr := iv, ptr
				class := fmt.Sprintf("C09|id-differs|%s|%s", s.Name, iv.dim)
				c.Do(class, func() string { return fmt.Sprintf("%s (ptr=%v) with id %s vs %s", s.Name, ptr, iv.a, iv.b) }, func(t *engine.T) {
					t.Distinct(true)
					a, b := mkBase(iv.a, s.SpecificName(), ptr), mkBase(iv.b, s.SpecificName(), ptr)
					if c09Eq(t, a, b) || c09Eq(t, b, a) {
						t.Fail(class+"|equal", "objects whose ids differ in %s compare equal", iv.dim)
					}
				})
			}
		}
		other := "Note"
		if s.SpecificName() == "Note" {
			other = "Article"
		}
		for _, pair := range [][2]string{{s.SpecificName(), other}, {s.SpecificName(), "Person"}, {s.SpecificName(), "Like"}, {s.SpecificName(), "Collection"}, {s.SpecificName(), ""}} {
			pair := pair
			if pair[0] == pair[1] {
				continue
			}
			class := fmt.Sprintf("C09|type-differs|%s|%s", s.Name, pair[1])
			c.Do(class, func() string { return fmt.Sprintf("%s with type %q vs %q", s.Name, pair[0], pair[1]) }, func(t *engine.T) {
				t.Distinct(true)
				a, b := mkBase("https://example.com/o/1", pair[0], true), mkBase("https://example.com/o/1", pair[1], true)
				if c09Eq(t, a, b) || c09Eq(t, b, a) {
					t.Fail(class+"|equal", "objects whose types differ (%q vs %q) compare equal", pair[0], pair[1])
				}
			})
		}
		for _, f := range s.PropertyFields() {
			if c09Excluded[f.Term] {
				continue
			}
			_, inCore := reflect.TypeOf(ap.Object{}).FieldByName(f.Name)
			isAct := s.Name == "Activity" && c09ActivityProps[f.Term]
			if !inCore && !isAct {
				continue
			}
			for _, v := range c09Variants(f.Kind) {
				f, v := f, v
				class := fmt.Sprintf("C09|property-change|%s|%s|%s", s.Name, f.Term, v.shape)
				c.Do(class, func() string { return fmt.Sprintf("%s copies that differ only in %s (%s)", s.Name, f.Term, v.shape) }, func(t *engine.T) {
					t.Distinct(true)
					mk := func(which int) ap.Item {
						p := reflect.New(s.Type)
						e := p.Elem()
						e.FieldByName("ID").Set(reflect.ValueOf(ap.IRI("https://example.com/o/1")))
						e.FieldByName("Type").Set(reflect.ValueOf(ap.ActivityVocabularyType(s.SpecificName())))
						val := reflect.ValueOf(v.mk(which))
						fv := e.Field(f.Index)
						if fv.Kind() != reflect.Interface && val.Type() != fv.Type() {
							val = val.Convert(fv.Type())
						}
						fv.Set(val)
						return p.Interface().(ap.Item)
					}
					a, b := mk(1), mk(2)
					ab, ba := c09Eq(t, a, b), c09Eq(t, b, a)
					if ab || ba {
						t.Fail(class+"|equal", "ItemsEqual(a,b)=%v ItemsEqual(b,a)=%v although %s differs: %v vs %v", ab, ba, f.Term, v.mk(1), v.mk(2))
					}
					if !c09Eq(t, a, mk(1)) {
						t.Outcome("twin-not-equal (reflexivity, reported by the reflexive cases)")
					}
				})
			}
		}
	}
	// ---- soundness on all ordered pairs of a sub-universe: equal => ids equivalent, types equal ignoring case; never panics
	type pv struct {
		name, owner string
		mk          func() ap.Item
	}
	var sub []pv
	add := func(r universe.Recipe) {
		sub = append(sub, pv{r.String(), r.Struct.Name, func() ap.Item { return r.Item() }})
	}
	for i := range universe.Structs {
		s := &universe.Structs[i]
		universe.Level0(s, add)
		if !c.Quick() {
			universe.Level1(s, universe.AnyCodec, true, add)
		}
	}
	for _, b := range bare {
		b := b
		sub = append(sub, pv{b.name, strings.SplitN(b.name, "[", 2)[0], b.mk})
	}
	for ai := range sub {
		pa := sub[ai]
		c.Do("C09|pairs|"+pa.owner, func() string { return "ItemsEqual(" + pa.name + ", every value of the sub-universe)" }, func(t *engine.T) {
			a := pa.mk()
			for _, pb := range sub {
				b := pb.mk()
				if c09Eq(t, a, b) {
					if !a.GetLink().Equals(b.GetLink(), false) {
						t.Fail("C09|pairs|"+pa.owner+"|"+pb.owner+"|equal-with-different-ids", "ItemsEqual(%s, %s) = true", pa.name, pb.name)
					}
					if a.IsObject() && b.IsObject() && !strings.EqualFold(string(a.GetType()), string(b.GetType())) {
						t.Fail("C09|pairs|"+pa.owner+"|"+pb.owner+"|equal-with-different-types", "ItemsEqual(%s, %s) = true", pa.name, pb.name)
					}
					if a.IsObject() != b.IsObject() && !ap.IsIRI(a) && !ap.IsIRI(b) {
						t.Fail("C09|pairs|"+pa.owner+"|"+pb.owner+"|object-equals-non-object", "ItemsEqual(%s, %s) = true", pa.name, pb.name)
					}
				}
			}
			t.AddEvals(int64(len(sub))-1, int64(len(sub))-1)
			t.Distinct(true)
		})
	}
}

func c09ReflFail(t *engine.T, class, how string, r universe.Recipe, cn *canon.Node) {
	// attribute the failure to the populated properties' shape classes, so that one defect gives one key family
	if len(r.Sets) == 1 {
		t.Fail(fmt.Sprintf("%s|%s|%s|%s", class, r.Sets[0].Field.Term, r.Sets[0].Shape.Class, how), "ItemsEqual = false for %s", cn)
		return
	}
	t.Fail(fmt.Sprintf("%s|multi|%d-properties|%s", class, len(r.Sets), how), "ItemsEqual = false for %s", cn)
}

// c09Long is a list of n distinct IRIs; member `at` (if >= 0) depends on the variant v.
func c09Long(n, at, v int) ap.ItemCollection {
	l := make(ap.ItemCollection, 0, n)
	for i := 0; i < n; i++ {
		if i == at {
			l = append(l, c09IRI(v, fmt.Sprintf("long/%d/", i)))
		} else {
			l = append(l, ap.IRI(fmt.Sprintf("https://example.com/long/%d", i)))
		}
	}
	return l
}

// c09Objects is a list of n embedded objects with pairwise distinct ids; the NAME of member `at` depends on the variant v.
func c09Objects(n, at, v int) ap.ItemCollection {
	l := make(ap.ItemCollection, 0, n)
	for i := 0; i < n; i++ {
		name := "same name"
		if i == at {
			name = fmt.Sprintf("name %d", v)
		}
		l = append(l, &ap.Object{ID: ap.IRI(fmt.Sprintf("https://example.com/members/%d", i)), Type: ap.NoteType, Name: ap.NaturalLanguageValues{{Ref: "-", Value: ap.Content(name)}}})
	}
	return l
}
