package checks

import (
	"bytes"
	"fmt"
	"os"
	"os/exec"
	"path/filepath"
	"regexp"
	"strings"
	"time"

	"verif/internal/engine"
	"verif/internal/instr"
)

// C12 — read-only operations never modify their arguments and are race-free (DESIGN.md §3 C12).
//
// (a) sequential non-interference: deep byte snapshots (incl. slice capacity, pointer identity, package-level variables)
//     around every read-only operation on every universe value, and result stability;
// (b) schedules: stateless preemption-bounded DFS over the interleavings of 2-3 goroutines under a cooperative scheduler
//     whose yield points are the function entries, function literals and loop bodies of an instrumented copy of the library
//     (generated at check time from the current tree, built with -overlay; /repo is not modified);
// (c) side condition: the same scenario bodies free-running in a -race build.
//
// (a) and (b) run in workers built from the instrumented tree; (c) is run by the parent.

func init() {
	engine.Register(&engine.Check{
		ID: "C12", Name: "readonly-concurrent", Level: "model_checking",
		Rule: "(b) for each of 12 scenarios (2-3 goroutines, one operation each, on a shared value or on independent documents): every schedule with at most k preemptions over the yield points of the instrumented " +
			"library (every function entry, function literal and loop body, and before/after every pooling, locking or atomic call), by iterative preemption-bounded DFS; per execution: every thread's result equals the sequential result, the shared values' and the " +
			"values' deep snapshot is unchanged at the end; a changed package-level variable is counted, not judged (a synchronised cache is legitimate - whether shared state matters is decided by the results and the race pass) (on the executions that open each sub-tree additionally: the shared values at every yield point - every 8th for S9 - and the package-level variables whenever the processor changes hands), no panic; states = distinct (scenario, schedule) executions; " +
			"(a) every read-only operation (incl. every niladic marshaler / String / observer method of the leaf types - language lists, entries, texts, tags, IRIs, media types, nested structs - found in the value) x every universe value: deep snapshot before == after, results of an earlier call unchanged by a later one; (c) every scenario free-running under the race detector (quick: 16 goroutines x 25 rounds; thorough: 3 x 32 goroutines x 40 rounds; S9 with 16-32 KiB texts)",
		Assumptions: []string{"interleavings are explored at function-entry / loop granularity of the library only; finer interleavings and the Go memory model are delegated to the race-detector pass, a dynamic monitor",
			"third-party code (jsonld, fastjson, encoding/gob) is not instrumented; its internal synchronisation is trusted"},
		Bound: func(tier string) string {
			if tier == "thorough" {
				return "all scenarios complete for <= 2 preemptions, the 2-thread scenarios S1-S3 for <= 3 (deadline permitting: the evidence reports exhaustive=false if not); sequential pass over level 1 (all shapes), saturated and depth 2; families added after round 5: DESIGN.md 8.11"
			}
			return "all 2-thread scenarios complete for <= 2 preemptions (S9, ~1 300 yield points per execution: <= 1), 3-thread scenarios for <= 1; sequential pass over level 0, level 1 (q shapes) and saturated; families added after round 5: DESIGN.md 8.11"
		},
		Pre:  c12Pre,
		Post: c12Race,
		WorkerBinary: func(p *engine.Parent) string {
			b := filepath.Join(p.BuildDir(), "verif-check-instr")
			if _, err := os.Stat(b); err == nil {
				return b
			}
			return ""
		},
		WorkerEnv:     []string{"GOMAXPROCS=1"},
		DeadlineQuick: 6 * time.Minute, DeadlineThorough: 50 * time.Minute,
		HangSeconds: 120,
		Run:         c12Run,
	})
}

func c12Pre(p *engine.Parent) error {
	dir := filepath.Join(p.BuildDir(), "instr")
	os.RemoveAll(dir)
	res, err := instr.Instrument(repoDir(), dir)
	if err != nil {
		return fmt.Errorf("instrumenting /repo: %v", err)
	}
	out := filepath.Join(p.BuildDir(), "verif-check-instr")
	cmd := exec.Command("go", "build", "-tags", "verif", "-overlay", res.Overlay, "-o", out, "./cmd/verif-check")
	cmd.Dir = p.Root
	if b, err := cmd.CombinedOutput(); err != nil {
		os.Remove(out)
		return fmt.Errorf("instrumented build failed: %v\n%s", err, b)
	}
	p.Extra["yield_points_in_library"] = len(res.Points)
	p.Extra["package_level_variables_snapshotted"] = len(res.Globals)
	p.Extra["instrumented_files"] = res.Files
	p.Extra["instrumentation"] = "generated from the current tree at check time; go build -tags verif -overlay (no hooks in /repo)"
	return nil
}

var c12RaceFrame = regexp.MustCompile(`github\.com/go-ap/activitypub\.([^\s(]+)`)

// c12Race is the free-running race-detector pass.
func c12Race(p *engine.Parent) error {
	out := filepath.Join(p.BuildDir(), "verif-race")
	cmd := exec.Command("go", "build", "-race", "-o", out, "./cmd/verif-race")
	cmd.Dir = p.Root
	if b, err := cmd.CombinedOutput(); err != nil {
		return fmt.Errorf("race build failed: %v\n%s", err, b)
	}
	run := exec.Command(out, p.Tier)
	run.Env = append(os.Environ(), "GORACE=halt_on_error=1 exitcode=66")
	var buf bytes.Buffer
	run.Stdout, run.Stderr = &buf, &buf
	err := run.Run()
	text := buf.String()
	p.Extra["race_pass"] = lastLine(text)
	switch {
	case strings.Contains(text, "DATA RACE"):
		fn := "unknown"
		if m := c12RaceFrame.FindStringSubmatch(text); m != nil {
			fn = m[1]
		}
		p.AddFailure(engine.Failure{Key: "C12|race|data-race|" + fn, Class: "C12|race", Case: "free-running scenarios under the race detector (quick: 16 goroutines x 25 rounds; thorough: 3 x 32 goroutines x 40 rounds)",
			Detail: firstN(text, 3000)})
	case strings.Contains(text, "RESULT-MISMATCH"):
		p.AddFailure(engine.Failure{Key: "C12|race|result-differs-from-sequential", Class: "C12|race", Case: "free-running scenarios", Detail: firstN(text, 2000)})
	case err != nil:
		p.AddFailure(engine.Failure{Key: "C12|race|crash", Class: "C12|race", Case: "free-running scenarios", Detail: fmt.Sprintf("%v\n%s", err, firstN(text, 2000))})
	}
	return nil
}

func lastLine(s string) string {
	l := strings.Split(strings.TrimSpace(s), "\n")
	return l[len(l)-1]
}

func firstN(s string, n int) string {
	if len(s) > n {
		return s[:n]
	}
	return s
}
