package checks

import (
	"fmt"
	"net/url"
	"path"
	"sort"
	"strings"
	"unicode"

	ap "github.com/go-ap/activitypub"

	"verif/internal/engine"
	"verif/internal/universe"
)

// C14 — IRI equivalence is an equivalence relation with the documented insensitivities (DESIGN.md §3 C14).

type c14IRI struct {
	scheme, host, path, query, frag string
}

func (i c14IRI) String() string { return i.scheme + "://" + i.host + i.path + i.query + i.frag }

var (
	c14Schemes = []string{"http", "https", "HTTPS"}
	c14Hosts   = []string{"e.com", "E.COM", "e.com:8080", "f.org"}
	// paths: the root in five spellings (none, "/", and three that only CLEAN to the root), a segment with and without a trailing
	// slash and in the other letter case, dot segments; queries: none and the bare "?" (both: no parameters), orders, repetitions
	c14Paths   = []string{"", "/", "/.", "/a/..", "//", "/a", "/a/", "/A", "/a/b", "/a/./b", "/a/c/../b"}
	c14Queries = []string{"", "?", "?x=1", "?x=1&y=2", "?y=2&x=1", "?x=1&x=1", "?x=1&x=2", "?x=2&x=1", "?x=2"}
	c14Frags   = []string{"", "#f", "#g"}
	c14Strings = []string{"", "-", "a", "A", "#", "#a", "://", "a#b", "?", "%zz", "%ZZ", "a b", "/", "/a", "/A", "//", "//e.com", "e.com", "E.com",
		"e.com/a", "http:", "http:/", "http://", "HTTP://", "mailto:a@b", "MAILTO:A@B", "urn:x:1", "urn:x:2", "acct:a@e.com", "?x=1", "?x=2", "a?x=1&y=2", "a?y=2&x=1",
		"http://%zz", "http://e.com:port", ":", "::", "http//e.com", "ht tp://e.com", "\x00", "é", "É"}
)

func c14Grid(quick bool) []c14IRI {
	schemes, hosts, frags := c14Schemes, c14Hosts, c14Frags
	_ = quick // the complete grid costs ~3 s, so both tiers explore all of it
	var out []c14IRI
	for _, s := range schemes {
		for _, h := range hosts {
			for _, p := range c14Paths {
				for _, q := range c14Queries {
					for _, f := range frags {
						out = append(out, c14IRI{s, h, p, q, f})
					}
				}
			}
		}
	}
	return out
}

// c14Norm is the reference normaliser: scheme (only when asked), host+port lower-cased, cleaned case-folded path with
// "/" == "", sorted multiset of query pairs, fragment dropped.
// c14Fold maps every rune to the smallest member of its simple case-folding orbit: "ignoring letter case" in the sense of
// strings.EqualFold (K and the Kelvin sign fold together, U+0130 and i do not), unlike strings.ToLower.
func c14Fold(s string) string {
	var b strings.Builder
	for _, r := range s {
		m := r
		for f := unicode.SimpleFold(r); f != r; f = unicode.SimpleFold(f) {
			if f < m {
				m = f
			}
		}
		b.WriteRune(m)
	}
	return b.String()
}

func c14Norm(i c14IRI, checkScheme bool) string {
	var b strings.Builder
	if checkScheme {
		b.WriteString(c14Fold(i.scheme))
	}
	b.WriteString("|")
	b.WriteString(c14Fold(i.host))
	b.WriteString("|")
	p := i.path
	if p != "" {
		p = path.Clean(p)
	}
	if p == "/" {
		p = ""
	}
	b.WriteString(c14Fold(p))
	b.WriteString("|")
	q, _ := url.ParseQuery(strings.TrimPrefix(i.query, "?"))
	var pairs []string
	for k, vs := range q {
		for _, v := range vs {
			pairs = append(pairs, k+"\x00"+v) // a separator that cannot occur in a decoded key or value of these grids
		}
	}
	sort.Strings(pairs)
	b.WriteString(strings.Join(pairs, "&"))
	return b.String()
}

func c14Short(s string) string {
	if len(s) > 24 {
		return fmt.Sprintf("%s..%s(%d)", s[:6], s[len(s)-4:], len(s))
	}
	return s
}

func c14Sig(a, b c14IRI) string {
	var parts []string
	if a.scheme != b.scheme {
		parts = append(parts, "scheme")
	}
	if a.host != b.host {
		parts = append(parts, "host:"+c14Short(a.host)+"~"+c14Short(b.host))
	}
	if a.path != b.path {
		parts = append(parts, "path:"+c14Short(a.path)+"~"+c14Short(b.path))
	}
	if a.query != b.query {
		parts = append(parts, "query:"+c14Short(a.query)+"~"+c14Short(b.query))
	}
	if a.frag != b.frag {
		parts = append(parts, "fragment")
	}
	if len(parts) == 0 {
		return "identical"
	}
	return strings.Join(parts, ",")
}

func init() {
	engine.Register(&engine.Check{
		ID: "C14", Name: "iri-equivalence", Level: "model_checking",
		Rule: "grid scheme{http,https,HTTPS} x host{e.com,E.COM,e.com:8080,f.org} x 11 paths (the root in five spellings) x 9 queries (none, bare ?) x 3 fragments ; one evaluation = one ordered pair x scheme mode, " +
			"compared with the reference normaliser; plus 42 non-URL strings (all ordered pairs among them and against the grid) for reflexivity/symmetry and list membership; non-trivial = pair of different presentations",
		Assumptions: []string{"queries in one letter case (outside the stated domain otherwise)", "net/url parsing of the grid IRIs"},
		Bound: func(tier string) string {
			return "complete grid of 3564 IRIs: 12.7M ordered pairs x 2 scheme modes; confusable grid of ~1200 IRIs (letters that a careless case mapping identifies, paths differing in their last byte after multi-byte characters, each with and without a fragment, percent-encoded = and & in query keys and values, ids colliding under common 32-bit hashes); byte grid of ~240 IRIs (every printable ASCII character and DEL as a byte of the path and as a query value: all ordered pairs); path grid of 780 IRIs (every path of <= 4 segments over a, b, .., ., empty): 608k ordered pairs x 2 modes; host grid of 1428 IRIs (ports at the edges of 8, 15 and 16 bits) (IPv6 literals differing in address / case / port, explicit default ports, dot segments, query values ending in a slash): 706k ordered pairs x 2 modes; query grid of 242 IRIs (every sequence of <= 4 parameters over x=1,x=2,y=2): 58k ordered pairs x 2 modes; membership in lists of 2..65 members (equivalent member first/last) over a 384-IRI sub-grid; scale grid of 1008 long IRIs (paths ending 64/300/1100 bytes in, queries of 17/33 parameters): 1.0M ordered pairs x 2 modes; 42 strings x (42 + 3564) pairs (same in both tiers); families added after round 5: DESIGN.md 8.11"
		},
		Run: c14Run,
	})
}

// c14ScaleGrid is a second grid whose components are long: paths that end 64, 300 and 1100 bytes into the IRI and differ only in
// their last byte, letter case or a trailing slash; queries of 17 and 33 parameters in two orders and with the last value changed.
func c14ScaleGrid() []c14IRI {
	q := func(n int, rev bool, changed bool) string {
		ps := make([]string, n)
		for i := range ps {
			ps[i] = fmt.Sprintf("k%d=v%d", i, i)
		}
		if changed {
			ps[n-1] = fmt.Sprintf("k%d=w", n-1)
		}
		if rev {
			for i, j := 0, n-1; i < j; i, j = i+1, j-1 {
				ps[i], ps[j] = ps[j], ps[i]
			}
		}
		return "?" + strings.Join(ps, "&")
	}
	var paths []string
	for _, L := range []int{50, 300, 1100} {
		base := "/" + strings.Repeat("p", L)
		paths = append(paths, base+"a", base+"b", base+"a/", strings.ToUpper(base)+"A")
	}
	queries := []string{"", q(17, false, false), q(17, true, false), q(17, false, true), q(33, false, false), q(33, true, false), q(33, true, true)}
	var out []c14IRI
	for _, s := range []string{"http", "https"} {
		for _, h := range []string{"e.com", "E.COM", strings.Repeat("h", 60) + ".e.com"} {
			for _, p := range paths {
				for _, qq := range queries {
					for _, f := range []string{"", "#f"} {
						out = append(out, c14IRI{s, h, p, qq, f})
					}
				}
			}
		}
	}
	return out
}

// c14QueryGrid: every sequence of at most 4 parameters over {x=1, x=2, y=2} (all multisets in all orders) on two paths.
func c14QueryGrid() []c14IRI {
	pairs := []string{"x=1", "x=2", "y=2"}
	var qs []string
	var rec func(cur []string)
	rec = func(cur []string) {
		if len(cur) == 0 {
			qs = append(qs, "")
		} else {
			qs = append(qs, "?"+strings.Join(cur, "&"))
		}
		if len(cur) == 4 {
			return
		}
		for _, p := range pairs {
			rec(append(append([]string{}, cur...), p))
		}
	}
	rec(nil)
	var out []c14IRI
	for _, p := range []string{"/a", "/a/"} {
		for _, q := range qs {
			out = append(out, c14IRI{"https", "e.com", p, q, ""})
		}
	}
	return out
}

// c14Lists: membership in lists of 1..65 members must agree with Equals whatever the length of the list and the position of the
// equivalent member (a long list must not switch to a cheaper notion of sameness).
func c14Lists(c *engine.Ctx) {
	var sub []c14IRI
	for _, s := range []string{"http", "HTTPS"} {
		for _, h := range []string{"e.com", "E.COM", "e.com:8080"} {
			for _, p := range c14Paths {
				for _, q := range []string{"", "?x=1&y=2", "?y=2&x=1", "?x=2"} {
					sub = append(sub, c14IRI{s, h, p, q, ""}, c14IRI{s, h, p, q, "#f"})
				}
			}
		}
	}
	filler := func(n int) []ap.IRI {
		out := make([]ap.IRI, n)
		for i := range out {
			out[i] = ap.IRI(fmt.Sprintf("https://filler.example/%d", i))
		}
		return out
	}
	sizes := []int{2, 16, 17, 32, 33, 64, 65}
	for ai := range sub {
		a := sub[ai]
		c.Do("C14|contains|lists", func() string {
			return fmt.Sprintf("needle %q against every member of the sub-grid placed first/last in lists of %v members", a, sizes)
		}, func(t *engine.T) {
			ia := ap.IRI(a.String())
			for _, b := range sub {
				ib := ap.IRI(b.String())
				eq := ia.Equals(ib, false)
				for _, n := range sizes {
					for _, at := range []int{0, n - 1} {
						l := filler(n)
						l[at] = ib
						iris := ap.IRIs(l)
						items := make(ap.ItemCollection, n)
						for i := range l {
							items[i] = l[i]
						}
						if in := iris.Contains(ia); in != eq {
							t.Fail(fmt.Sprintf("C14|contains|IRIs|len=%d|%s", n, c14Sig(a, b)), "IRIs of %d with %q at %d: Contains(%q) = %v but Equals = %v", n, string(ib), at, string(ia), in, eq)
						}
						if in := items.Contains(ia); in != eq {
							t.Fail(fmt.Sprintf("C14|contains|ItemCollection|len=%d|%s", n, c14Sig(a, b)), "ItemCollection of %d with %q at %d: Contains(%q) = %v but Equals = %v", n, string(ib), at, string(ia), in, eq)
						}
					}
				}
			}
			t.Ops(len(sub) * len(sizes) * 4)
			t.AddEvals(int64(len(sub)*len(sizes)*2)-1, int64(len(sub)*len(sizes)*2)-1)
			t.Distinct(true)
		})
	}
}

// c14HostGrid: IPv6 literal hosts (differing in the address, in letter case, in the port), explicit default ports, dot segments,
// query values that end in a slash.
func c14HostGrid() []c14IRI {
	var out []c14IRI
	for _, s := range []string{"http", "https"} {
		for _, h := range []string{"[2001:db8::1]", "[2001:db8::2]", "[2001:DB8::1]", "[2001:db8::1]:8080", "[2001:db8::1]:9090", "[::1]", "[::2]", "e.com", "e.com:443", "e.com:80",
			// ports at the edges of 8, 15 and 16 bits (a port is a string of digits to the comparison, whatever its magnitude)
			"e.com:1", "e.com:255", "e.com:256", "e.com:32767", "e.com:32768", "e.com:49152", "e.com:65535"} {
			for _, p := range []string{"/a", "/a/", "/b/../a"} {
				for _, q := range []string{"", "?x=1&y=2", "?y=2&x=1", "?dir=/", "?dir=", "?x=/a/", "?x=/a"} {
					for _, f := range []string{"", "#f"} {
						out = append(out, c14IRI{s, h, p, q, f})
					}
				}
			}
		}
	}
	return out
}

// c14ConfusableGrid: paths that differ in one letter a careless case mapping identifies (U+0130 / dotless i / Kelvin sign / long
// s), percent-encoded separators inside query keys and values, and ids that collide under common 32-bit hashes.
func c14ConfusableGrid() []c14IRI {
	var out []c14IRI
	for _, p := range []string{"/~\u0130nci", "/~inci", "/~\u0131nci", "/~Inci", "/~INCI", "/\u212a", "/k", "/K", "/\u017f", "/s", "/S",
		"/actors/\u00c9lodie", "/actors/\u00e9lodie", "/actors/\u00c9lodie/", "/actors/\u00e9lodie/", "/x/../actors/\u00c9LODIE", "/\u0416", "/\u0436/", "/\u03a3", "/\u03c3", "/\u03c2",
		// paths that differ only in their LAST byte, after 2-, 3- and 4-byte characters: with a fragment behind them, an offset counted
		// in characters instead of bytes cuts the difference off
		"/\u00e91", "/\u00e92", "/\u65e5\u672c\u8a9e/1", "/\u65e5\u672c\u8a9e/2", "/\U0001f600a", "/\U0001f600b"} {
		for _, q := range []string{"", "?a%3Db=c", "?a=b%3Dc", "?a=b=c", "?a%26b=c", "?a=b%26c", "?a=b&c=", "?a=b&c",
			"?tag=a,b&tag=c", "?tag=a&tag=b,c", "?tag=,&tag=x", "?tag=&tag=,x", "?tag=c&tag=a,b", "?k=1&k=2,3&k=4", "?k=1,2&k=3&k=4", "?k=a%00b&k=c", "?k=a&k=%00b%00c"} {
			out = append(out, c14IRI{"https", "e.com", p, q, ""}, c14IRI{"https", "e.com", p, q, "#f"})
		}
	}
	for _, pr := range universe.CollidingIDs() {
		for _, id := range pr {
			u, err := url.Parse(string(id))
			if err != nil {
				continue
			}
			out = append(out, c14IRI{u.Scheme, u.Host, u.Path, "", ""}, c14IRI{"http", strings.ToUpper(u.Host), u.Path + "/", "", "#f"})
		}
	}
	return out
}

// c14ByteGrid: every printable ASCII character (and DEL) that does not change the structure of a URL, as one byte of the path
// (under two spellings of the host) and - letters excepted, see the assumptions - as a query value: only the 26 letter pairs
// are the same ignoring case; a fold done with bit tricks also identifies @ and `, [ and {, \ and |, ] and }, ^ and ~, _ and DEL.
func c14ByteGrid() []c14IRI {
	var out []c14IRI
	for ch := byte(0x21); ch <= 0x7f; ch++ {
		if strings.IndexByte("#?%/", ch) >= 0 {
			continue
		}
		for _, h := range []string{"e.com", "E.COM"} {
			out = append(out, c14IRI{"https", h, "/u/" + string(ch) + "x", "", ""})
		}
		letter := ch >= 'a' && ch <= 'z' || ch >= 'A' && ch <= 'Z'
		if !letter && strings.IndexByte("&=+;", ch) < 0 {
			out = append(out, c14IRI{"https", "e.com", "/q", "?k=" + string(ch), ""})
		}
	}
	return out
}

// c14PathGrid: every path of at most 4 segments over {a, b, "..", ".", ""} (780 paths: dot segments after empty segments, above the
// root, trailing and doubled slashes in every combination) on one host: equal exactly when they clean to the same path.
func c14PathGrid() []c14IRI {
	segs := []string{"a", "b", "..", ".", ""}
	var out []c14IRI
	var rec func(cur string, n int)
	rec = func(cur string, n int) {
		if n > 0 {
			out = append(out, c14IRI{"https", "e.com", cur, "", ""})
		}
		if n == 4 {
			return
		}
		for _, sg := range segs {
			rec(cur+"/"+sg, n+1)
		}
	}
	rec("", 0)
	return out
}

func c14Run(c *engine.Ctx) {
	c14RunGrid(c, c14ConfusableGrid(), "confusable-grid")
	c14RunGrid(c, c14PathGrid(), "path-grid")
	c14RunGrid(c, c14ByteGrid(), "byte-grid")
	c14RunGrid(c, c14HostGrid(), "host-grid")
	c14RunGrid(c, c14Grid(c.Quick()), "grid")
	c14RunGrid(c, c14ScaleGrid(), "scale-grid")
	c14RunGrid(c, c14QueryGrid(), "query-grid")
	c14Lists(c)
	c14RunStrings(c, c14Grid(c.Quick()))
}

func c14RunGrid(c *engine.Ctx, grid []c14IRI, label string) {
	norms := [2][]string{}
	for _, g := range grid {
		norms[0] = append(norms[0], c14Norm(g, false))
		norms[1] = append(norms[1], c14Norm(g, true))
	}
	iris := make([]ap.IRI, len(grid))
	for k, g := range grid {
		iris[k] = ap.IRI(g.String())
	}
	for ai := range grid {
		a := grid[ai]
		c.Do("C14|equals|"+label, func() string {
			return fmt.Sprintf("IRI %.120q against every IRI of the %s, both scheme modes", a, label)
		}, func(t *engine.T) {
			ia := iris[ai]
			nontriv := int64(0)
			for bi := range grid {
				ib := iris[bi]
				for m, cs := range []bool{false, true} {
					got := ia.Equals(ib, cs)
					want := norms[m][ai] == norms[m][bi]
					if got != want {
						t.Fail(fmt.Sprintf("C14|equals|cs=%v|%s|want=%v", cs, c14Sig(a, grid[bi]), want),
							"IRI(%q).Equals(%q, %v) = %v, reference normaliser says %v (%q vs %q)", string(ia), string(ib), cs, got, want, norms[m][ai], norms[m][bi])
					}
				}
				if ai != bi {
					nontriv += 2
				}
				inIRIs := ap.IRIs{ib}.Contains(ia)
				inItems := ap.ItemCollection{ib}.Contains(ia)
				eq := ia.Equals(ib, false)
				if inIRIs != eq {
					t.Fail("C14|contains|IRIs|"+c14Sig(a, grid[bi]), "IRIs{%q}.Contains(%q) = %v but Equals = %v", string(ib), string(ia), inIRIs, eq)
				}
				if inItems != eq {
					t.Fail("C14|contains|ItemCollection|"+c14Sig(a, grid[bi]), "ItemCollection{%q}.Contains(%q) = %v but Equals = %v", string(ib), string(ia), inItems, eq)
				}
			}
			t.Ops(len(grid) * 5)
			t.AddEvals(int64(2*len(grid))-1, nontriv)
			t.Distinct(false)
		})
	}
	// arbitrary strings: reflexive, symmetric, IRIs membership agrees
}

func c14RunStrings(c *engine.Ctx, grid []c14IRI) {
	iris := make([]ap.IRI, len(grid))
	for k, g := range grid {
		iris[k] = ap.IRI(g.String())
	}
	all := append([]ap.IRI{}, iris...)
	for _, s := range c14Strings {
		all = append(all, ap.IRI(s))
	}
	for si, s := range c14Strings {
		s := ap.IRI(s)
		c.Do("C14|equals|strings", func() string { return fmt.Sprintf("string %q against every string and every grid IRI", s) }, func(t *engine.T) {
			for _, cs := range []bool{false, true} {
				if !s.Equals(s, cs) {
					t.Fail(fmt.Sprintf("C14|equals|cs=%v|string#%d|not-reflexive", cs, si), "IRI(%q).Equals(itself, %v) = false", string(s), cs)
				}
				for _, o := range all {
					x, y := s.Equals(o, cs), o.Equals(s, cs)
					if x != y {
						t.Fail(fmt.Sprintf("C14|equals|cs=%v|string#%d|not-symmetric", cs, si), "IRI(%q).Equals(%q,%v)=%v but the converse is %v", string(s), string(o), cs, x, y)
					}
				}
			}
			for _, o := range all {
				if in, eq := (ap.IRIs{o}).Contains(s), s.Equals(o, false); in != eq {
					t.Fail(fmt.Sprintf("C14|contains|IRIs|string#%d", si), "IRIs{%q}.Contains(%q) = %v but Equals = %v", string(o), string(s), in, eq)
				}
			}
			t.Ops(len(all) * 6)
			t.AddEvals(int64(len(all)*2)-1, int64(len(all)*2)-2)
			t.Distinct(true)
		})
	}
}
