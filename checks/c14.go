package checks

import (
	"fmt"
	"net/url"
	"path"
	"sort"
	"strings"

	ap "github.com/go-ap/activitypub"

	"verif/internal/engine"
)

// C14 — IRI equivalence is an equivalence relation with the documented insensitivities (DESIGN.md §3 C14).

type c14IRI struct {
	scheme, host, path, query, frag string
}

func (i c14IRI) String() string { return i.scheme + "://" + i.host + i.path + i.query + i.frag }

var (
	c14Schemes = []string{"http", "https", "HTTPS"}
	c14Hosts   = []string{"e.com", "E.COM", "e.com:8080", "f.org"}
	c14Paths   = []string{"", "/", "/a", "/a/", "/A", "/a/b", "/a/./b", "/a/c/../b"}
	c14Queries = []string{"", "?x=1", "?x=1&y=2", "?y=2&x=1", "?x=1&x=1", "?x=1&x=2", "?x=2&x=1", "?x=2"}
	c14Frags   = []string{"", "#f", "#g"}
	c14Strings = []string{"", "-", "a", "A", "#", "#a", "://", "a#b", "?", "%zz", "%ZZ", "a b", "/", "/a", "/A", "//", "//e.com", "e.com", "E.com",
		"e.com/a", "http:", "http:/", "http://", "HTTP://", "mailto:a@b", "MAILTO:A@B", "urn:x:1", "urn:x:2", "acct:a@e.com", "?x=1", "?x=2", "a?x=1&y=2", "a?y=2&x=1",
		"http://%zz", "http://e.com:port", ":", "::", "http//e.com", "ht tp://e.com", "\x00", "é", "É"}
)

func c14Grid(quick bool) []c14IRI {
	schemes, hosts, frags := c14Schemes, c14Hosts, c14Frags
	_ = quick // the complete grid costs ~3 s, so both tiers explore all of it
	var out []c14IRI
	for _, s := range schemes {
		for _, h := range hosts {
			for _, p := range c14Paths {
				for _, q := range c14Queries {
					for _, f := range frags {
						out = append(out, c14IRI{s, h, p, q, f})
					}
				}
			}
		}
	}
	return out
}

// c14Norm is the reference normaliser: scheme (only when asked), host+port lower-cased, cleaned case-folded path with
// "/" == "", sorted multiset of query pairs, fragment dropped.
func c14Norm(i c14IRI, checkScheme bool) string {
	var b strings.Builder
	if checkScheme {
		b.WriteString(strings.ToLower(i.scheme))
	}
	b.WriteString("|")
	b.WriteString(strings.ToLower(i.host))
	b.WriteString("|")
	p := i.path
	if p != "" {
		p = path.Clean(p)
	}
	if p == "/" {
		p = ""
	}
	b.WriteString(strings.ToLower(p))
	b.WriteString("|")
	q, _ := url.ParseQuery(strings.TrimPrefix(i.query, "?"))
	var pairs []string
	for k, vs := range q {
		for _, v := range vs {
			pairs = append(pairs, k+"="+v)
		}
	}
	sort.Strings(pairs)
	b.WriteString(strings.Join(pairs, "&"))
	return b.String()
}

func c14Sig(a, b c14IRI) string {
	var parts []string
	if a.scheme != b.scheme {
		parts = append(parts, "scheme")
	}
	if a.host != b.host {
		parts = append(parts, "host:"+a.host+"~"+b.host)
	}
	if a.path != b.path {
		parts = append(parts, "path:"+a.path+"~"+b.path)
	}
	if a.query != b.query {
		parts = append(parts, "query:"+a.query+"~"+b.query)
	}
	if a.frag != b.frag {
		parts = append(parts, "fragment")
	}
	if len(parts) == 0 {
		return "identical"
	}
	return strings.Join(parts, ",")
}

func init() {
	engine.Register(&engine.Check{
		ID: "C14", Name: "iri-equivalence", Level: "model_checking",
		Rule: "grid scheme{http,https,HTTPS} x host{e.com,E.COM,e.com:8080,f.org} x 8 paths x 8 queries x 3 fragments ; one evaluation = one ordered pair x scheme mode, " +
			"compared with the reference normaliser; plus 42 non-URL strings (all ordered pairs among them and against the grid) for reflexivity/symmetry and list membership; non-trivial = pair of different presentations",
		Assumptions: []string{"queries in one letter case (outside the stated domain otherwise)", "net/url parsing of the grid IRIs"},
		Bound: func(tier string) string {
			return "complete grid of 2304 IRIs: 5.3M ordered pairs x 2 scheme modes; 42 strings x (42 + 2304) pairs (same in both tiers)"
		},
		Run: c14Run,
	})
}

func c14Run(c *engine.Ctx) {
	grid := c14Grid(c.Quick())
	norms := [2][]string{}
	for _, g := range grid {
		norms[0] = append(norms[0], c14Norm(g, false))
		norms[1] = append(norms[1], c14Norm(g, true))
	}
	iris := make([]ap.IRI, len(grid))
	for k, g := range grid {
		iris[k] = ap.IRI(g.String())
	}
	for ai := range grid {
		a := grid[ai]
		c.Do("C14|equals|grid", func() string { return fmt.Sprintf("IRI %q against every IRI of the grid, both scheme modes", a) }, func(t *engine.T) {
			ia := iris[ai]
			nontriv := int64(0)
			for bi := range grid {
				ib := iris[bi]
				for m, cs := range []bool{false, true} {
					got := ia.Equals(ib, cs)
					want := norms[m][ai] == norms[m][bi]
					if got != want {
						t.Fail(fmt.Sprintf("C14|equals|cs=%v|%s|want=%v", cs, c14Sig(a, grid[bi]), want),
							"IRI(%q).Equals(%q, %v) = %v, reference normaliser says %v (%q vs %q)", string(ia), string(ib), cs, got, want, norms[m][ai], norms[m][bi])
					}
				}
				if ai != bi {
					nontriv += 2
				}
				inIRIs := ap.IRIs{ib}.Contains(ia)
				inItems := ap.ItemCollection{ib}.Contains(ia)
				eq := ia.Equals(ib, false)
				if inIRIs != eq {
					t.Fail("C14|contains|IRIs|"+c14Sig(a, grid[bi]), "IRIs{%q}.Contains(%q) = %v but Equals = %v", string(ib), string(ia), inIRIs, eq)
				}
				if inItems != eq {
					t.Fail("C14|contains|ItemCollection|"+c14Sig(a, grid[bi]), "ItemCollection{%q}.Contains(%q) = %v but Equals = %v", string(ib), string(ia), inItems, eq)
				}
			}
			t.Ops(len(grid) * 5)
			t.AddEvals(int64(2*len(grid))-1, nontriv)
			t.Distinct(false)
		})
	}
	// arbitrary strings: reflexive, symmetric, IRIs membership agrees
	all := append([]ap.IRI{}, iris...)
	for _, s := range c14Strings {
		all = append(all, ap.IRI(s))
	}
	for si, s := range c14Strings {
		s := ap.IRI(s)
		c.Do("C14|equals|strings", func() string { return fmt.Sprintf("string %q against every string and every grid IRI", s) }, func(t *engine.T) {
			for _, cs := range []bool{false, true} {
				if !s.Equals(s, cs) {
					t.Fail(fmt.Sprintf("C14|equals|cs=%v|string#%d|not-reflexive", cs, si), "IRI(%q).Equals(itself, %v) = false", string(s), cs)
				}
				for _, o := range all {
					x, y := s.Equals(o, cs), o.Equals(s, cs)
					if x != y {
						t.Fail(fmt.Sprintf("C14|equals|cs=%v|string#%d|not-symmetric", cs, si), "IRI(%q).Equals(%q,%v)=%v but the converse is %v", string(s), string(o), cs, x, y)
					}
				}
			}
			for _, o := range all {
				if in, eq := (ap.IRIs{o}).Contains(s), s.Equals(o, false); in != eq {
					t.Fail(fmt.Sprintf("C14|contains|IRIs|string#%d", si), "IRIs{%q}.Contains(%q) = %v but Equals = %v", string(o), string(s), in, eq)
				}
			}
			t.Ops(len(all) * 6)
			t.AddEvals(int64(len(all)*2)-1, int64(len(all)*2)-2)
			t.Distinct(true)
		})
	}
}
