//go:build !verif

package checks

import "verif/internal/engine"

// c12Run needs the instrumented library (build tag verif, overlay produced by internal/instr); the plain binary only
// coordinates and never runs C12 cases itself.
func c12Run(c *engine.Ctx) {
	panic("C12 workers must be started from the instrumented build")
}
