#!/usr/bin/env python3
"""tools_table.py <quick-log> <thorough-log>: rewrites the rows of the table in DESIGN.md section 4 from the summary lines
('Cxx quick: cases=... wall=...s') of a tools_all.sh run and of a thorough run."""
import re, sys
def parse(path, tier):
    out = {}
    for l in open(path, errors="replace"):
        m = re.search(r"(C\d\d) %s: cases=(\d+) evaluations=(\d+) .*exhaustive=(\w+) wall=([\d.]+)s" % tier, l)
        if m:
            out[m.group(1)] = (int(m.group(2)), int(m.group(3)), m.group(4) == "true", float(m.group(5)))
    return out
def num(n):
    if n >= 10_000_000: return f"{n/1e6:.0f} M"
    if n >= 1_000_000: return f"{n/1e6:.1f} M"
    if n >= 10_000: return f"{n/1e3:.0f} k"
    if n >= 1_000: return f"{n/1e3:.1f} k"
    return str(n)
def tm(s):
    return f"{s/60:.0f} min" if s >= 120 else f"{s:.0f} s"
q, t = parse(sys.argv[1], "quick"), parse(sys.argv[2], "thorough")
eng = {"C04": "bytes", "C08": "sites+enum", "C10": "hist", "C13": "hist", "C19": "hist", "C12": "enum+sched(+race)"}
lvl = {"C04": "fault_enumeration (all truncations + bounded deviations)"}
s = open("/verif/DESIGN.md").read()
rows = []
for i in range(1, 21):
    c = "C%02d" % i
    def cell(d):
        if c not in d: return "see evidence"
        cases, evals, ex, w = d[c]
        txt = f"{num(cases)} cases" + (f", {num(evals)} evaluations" if evals > cases * 1.5 else "") + f" · {tm(w)}"
        return txt + ("" if ex else " (deadline reached: exhaustive=false, completed part in the evidence)")
    rows.append(f"| {c} | {eng.get(c, 'enum')} | {lvl.get(c, 'model_checking (bounded-exhaustive on the implementation)')} | {cell(q)} | {cell(t)} |")
head = "| id | engine | level claimed | quick (cases · time) | thorough (cases · time) |\n|---|---|---|---|---|\n"
i = s.index(head) + len(head)
j = s.index("\n\n", i)
s = s[:i] + "\n".join(rows) + s[j:]
s = s.replace("Numbers are as measured on the 16-core sandbox after the scale axes of §8.6 were added (times vary with load)", "Numbers are as measured on the 16-core sandbox at the final state (after round 8, §8.14; quick on an idle machine, thorough at nice 19 next to a self-test run, so thorough times are upper bounds)")
open("/verif/DESIGN.md", "w").write(s)
print("\n".join(rows))
