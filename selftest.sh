#!/bin/sh
# selftest.sh [pattern]: applies every deliberate (mutants/*.diff) and independently seeded (seeded/*/patch.diff) property-breaking
# change to /repo in turn, runs the quick tier of the check of the property it breaks, reverts, and prints one line per change.
# A change counts as detected when the check exits 1 with at least one VIOLATION line. Nothing is committed in /repo.
cd "$(dirname "$0")" || exit 2
if ! git -C /repo diff --quiet; then echo "/repo has uncommitted changes"; exit 2; fi
trap 'git -C /repo checkout -- .' EXIT; trap 'git -C /repo checkout -- .; exit 130' INT TERM
for f in mutants/*.diff seeded/*/patch.diff; do
  case "$f" in *"$1"*) ;; *) continue;; esac
  # SELFTEST_SKIP: egrep pattern of change names to leave out (e.g. '-[ABC][78]$' for the rounds re-evaluated by tools_seed.py)
  if [ -n "$SELFTEST_SKIP" ] && echo "$(basename "$(dirname "$f")")" | grep -Eq "$SELFTEST_SKIP"; then continue; fi
  case "$f" in
    mutants/*) name=$(basename "$f" .diff); prop=$(echo "$name" | cut -c1-3 | tr c C);;
    *) name=$(basename "$(dirname "$f")"); prop=$(echo "$name" | cut -c1-3);;
  esac
  git -C /repo apply --exclude="_seed/*" "$PWD/$f" 2>/dev/null || git -C /repo apply -3 --exclude="_seed/*" "$PWD/$f" >/dev/null 2>&1 && git -C /repo reset -q || { git -C /repo reset -q; git -C /repo checkout -- .; echo "$name $prop PATCH-DOES-NOT-APPLY"; continue; }
  out=$(./run.sh "$prop" quick 2>&1); rc=$?
  n=$(echo "$out" | grep -c '^VIOLATION')
  key=$(echo "$out" | grep -m1 'key:' | sed 's/^ *key: *//' | cut -c1-110)
  git -C /repo checkout -- .
  if [ "$rc" = 1 ] && [ "$n" -gt 0 ]; then echo "$name $prop DETECTED violations=$n first=$key"; else echo "$name $prop MISSED rc=$rc"; fi
done
