#!/bin/sh
# runs every registered check (tier $1, default quick) and prints one line per check
cd "$(dirname "$0")"
T="${1:-quick}"
for c in $(python3 -c "import json;print(' '.join(x['property_id'] for x in json.load(open('MANIFEST.json'))['checks']))"); do
  out=$(./run.sh $c $T 2>&1); rc=$?
  echo "rc=$rc $(echo "$out" | tail -1)"
  echo "$out" | grep -E '^(VIOLATION|KNOWN-FINDING|HARNESS)' | head -5
done
