#!/usr/bin/env python3
# Generates MANIFEST.json from the table below (kept next to the checks so they stay in sync).
import json
BASE = "cd /repo && GOFLAGS=-mod=mod GOPROXY=off GOSUMDB=off GOTOOLCHAIN=local go test -json -vet=off -count=1 -timeout 25m ./..."
checks = {}
def chk(pid, engine, technique, text, note, ref, category="model_checking"):
    checks[pid] = {
        "property_id": pid,
        "quick_cmd": f"./run.sh {pid} quick",
        "thorough_cmd": f"./run.sh {pid} thorough",
        "evidence_file": f"/verif/evidence/{pid}.json",
        "replay_cmd_template": f"./run.sh {pid} --replay {{path}}",
        "engine": engine,
        "level_claimed": {"category": category, "text": text, "design_ref": ref},
        "level_note": note,
        "technique": technique,
    }

chk("C17", "enum",
    "bounded-exhaustive enumeration on the implementation (complete grid: all pairs/triples/permutation sorts) against a reference order",
    "Every ordered pair and triple of a 56-item grid (all published/updated combinations over 6 instants incl. zero, zone and 1ns variants, view types, nil, typed nil) and 3240 permutation sorts are executed on the real ItemOrderTimestamp and compared with the reference strict weak order; the space is finite and completely enumerated in both tiers.",
    "Trusts sort.Slice, time.Time.After and the 6-instant alphabet (small-scope: the comparator only uses After on two instants per item).",
    "DESIGN.md §3 C17")

chk("C01", "enum",
    "bounded-exhaustive enumeration of a reflection-derived value universe on the implementation; oracle = reflection canon (normal forms N1-N6), not the encoders",
    "Every value of the universe (level 0/1/saturated, depth 2; thorough adds level 2 and depth 3) is encoded and decoded by the real codec through both entry pairs and the canonical trees are compared; a dropped, renamed, moved or changed property shows up at exactly the (type, term, shape) cell where it lives.",
    "Alphabet finite (DESIGN.md §1.2); trusts reflect, the canon normal forms and the small-scope hypothesis that the codecs treat properties independently.",
    "DESIGN.md §3 C01")
chk("C03", "enum",
    "bounded-exhaustive enumeration of the value universe (plus nanosecond/non-UTC instants, negative/sub-second durations) through all three gob entry pairs; oracle = reflection canon with N1, N2, N6 only",
    "Same universe as C01 with the gob-only shapes; package GobEncode/GobDecode, T.GobEncode/(*T).GobDecode and MarshalBinary/UnmarshalBinary are all executed and compared by canonical tree at nanosecond precision.",
    "Alphabet finite; trusts reflect, encoding/gob and the canon.",
    "DESIGN.md §3 C03")

chk("C10", "hist",
    "exhaustive enumeration of addressing histories (all assignments of <= k entries to the addressing slots, then two Recipients() calls) on the implementation, in lock-step with a reference model over (identity, presentation)",
    "All assignments of at most 4 entries drawn from 6 (quick) / 10 (thorough) presentations of 3 identities and nil to to/cc/bto/bcc/audience (+actor, +Block object) are executed on a fresh value of each of the 13 types with Recipients() (and Block), and the returned list, the four lists afterwards and idempotence are compared with the reference de-duplication.",
    "Reading D5 (audience on the value is not judged); lists longer than the bound are outside.",
    "DESIGN.md §3 C10")
chk("C13", "hist",
    "explicit-state exploration of operation histories on the real containers in lock-step with a reference insertion-ordered set (depth-bounded, exhaustive, states de-duplicated by canonical member sequence)",
    "Every history over Append/Append(variadic)/Contains/Remove up to depth 3-4 (quick) / 4-5 (thorough) with a mixed-shape pool of distinct identities is replayed on a fresh container of each of the six kinds from two start states; Count, Collection and Contains(every pool item) are compared after every step.",
    "Reading D7 (no Remove for IRIs); distinct identities only; histories longer than the bound are outside.",
    "DESIGN.md §3 C13")
chk("C14", "enum",
    "exhaustive enumeration of all ordered pairs of a 2304-IRI grid x 2 scheme modes against a reference normaliser; reflexivity/symmetry and list membership on 42 non-URL strings",
    "IRI.Equals is compared with an independent normaliser on every ordered pair of the complete grid (10.6M evaluations), which implies reflexivity, symmetry and transitivity on the grid; IRIs.Contains / ItemCollection.Contains must agree with it.",
    "Grid alphabet (3 schemes, 4 hosts, 8 paths, 8 queries, 3 fragments); queries in one letter case.",
    "DESIGN.md §3 C14")
chk("C19", "hist",
    "explicit-state exploration of Set/Append/Add histories on the real NaturalLanguageValues in lock-step with a reference ordered pair list; complete pair matrix for Equals",
    "All histories of depth <= 4 (quick) / 6 (thorough) over 18 operations from 4 start states, all observers after every step; all 6241 ordered pairs of lists without repeated tags for Equals.",
    "3 tags (incl. the nil tag) and 2 texts; for Set on a repeated tag only the stated clauses are demanded.",
    "DESIGN.md §3 C19")

chk("C09", "enum",
    "bounded-exhaustive enumeration of items and item pairs on the implementation against the laws themselves (reflexivity, nil table, inequality under identity/type/property change in both orders, soundness of 'equal')",
    "ItemsEqual is executed on every value of the universe against itself and an independently built twin, on the complete 15x15 nil matrix and nil x non-nil in both orders, on id/type variants and single-property changes for every core and activity property x shape x struct, and on all ordered pairs of a sub-universe.",
    "Reading D4; finite alphabet of shapes and two variants per shape.",
    "DESIGN.md §3 C09")
chk("C15", "enum",
    "complete enumeration of the owner grid x collection names x holder matrix on the implementation against round-trip laws",
    "72 owners x 8 names: Split(IRIf(o,c)), OfActor(IRI(o)), ValidCollectionIRI, negatives with non-collection segments; holder matrix (4 forms x 8 names x unset/explicit IRI/explicit collection x 6 ids) for Of/IRI/AddTo.",
    "'Equivalent' is IRI.Equals (C14); actors carry a specific actor type.",
    "DESIGN.md §3 C15")

chk("C11", "enum",
    "bounded-exhaustive enumeration of carrier placements (every path of item positions up to the depth bound) on the implementation; oracle = reflection snapshot with bto/bcc removed exactly along the walked properties + encoding/json reading of the serialisation",
    "Every path of depth <= 2 (quick) / selected depth 3 (thorough) of item positions on every type with Clean() is populated with carrier objects (bto, bcc, to, cc), Clean() is executed and the value afterwards must equal the snapshot with bto/bcc removed along the walked properties and nothing else; the JSON written afterwards is read with encoding/json at every walked path.",
    "Reading D6; node types and depth bounded.",
    "DESIGN.md §3 C11")

chk("C16", "enum",
    "bounded-exhaustive enumeration of flattened positions x entry shapes and of addressing lists (all sequences up to length L over 11 entries, duplicates included) on the implementation against a per-entry reference flatten",
    "Every single-item flattened position x 13 entry shapes (+ lists of two) and every addressing list x every entry sequence of length <= 3 (quick) / 4 (thorough) on 9 host/function combinations, hosts otherwise fully populated with embedded objects; per-entry reference (D8), other properties unchanged, no invented IRI, idempotence.",
    "Reading D8 (no nil entries; duplicates kept or first-mention kept; embedded collections judged by the global clauses).",
    "DESIGN.md §3 C16")

chk("C18", "enum",
    "bounded-exhaustive enumeration of (to, from) pairs (single properties x set/unset combinations x backgrounds; property pairs x 16 combinations; refusal grid) on the implementation against the merge clauses on reflection snapshots",
    "Every property of each supported struct x 4 set/unset combinations x 4 backgrounds, every property pair x 16 combinations, the nil/typed-nil matrix, id variants (non-equivalent must be refused, equivalent must be accepted), type and struct mismatches and unsupported types; clauses: error and to untouched on refusal, from never modified, id/type from from, each property old-or-new, nothing lost, merged properties taken.",
    "Reading D11; two value variants per kind; nested structs judged per sub-property.",
    "DESIGN.md §3 C18")

chk("C20", "enum",
    "complete enumeration of the helper x nil-kind x position matrix on the implementation, one isolated execution per cell",
    "Every helper of an audited table (~95 entries: predicates, ItemsEqual, On*/To*, generic On/To, Flatten*, CleanRecipients, DerefItem, ItemOrderTimestamp, CopyItemProperties, CollectionPath, encoders and JSON item writers, container Contains/Append/Remove/ItemsMatch) x 15 nil kinds x 5 positions is executed; no panic, the stated answers of the predicates, nil callbacks at the top position.",
    "The helper table is hand-written and audited against the current tree's AST on every run (gaps listed in the evidence); type-specific Equals methods are outside the stated helper families.",
    "DESIGN.md §3 C20")

chk("C07", "enum",
    "complete enumeration of type names x dispatch channels x hook configurations on the implementation against an independent vocabulary table",
    "Every name of the vocabulary table (united with the live type lists, the empty name and 3 unknown names) is sent through the registry, JSON (top / nested item / nested list) and gob (top / nested item / nested list) with hooks unset and set; the Go type, the marker value (id, name, every family-specific property), family-list membership, IsObject/IsLink/IsCollection and the On*/To* acceptance matrix are compared with the table.",
    "The table in c07.go is hand-written from the ActivityStreams vocabulary; reading D3.",
    "DESIGN.md §3 C07")

chk("C06", "enum",
    "bounded-exhaustive enumeration of all token sequences up to length L over a 32-token text alphabet x positions x forms x channels on the implementation; oracle = byte equality",
    "All texts of up to 3 tokens (quick) / 4 tokens for content (thorough) over an alphabet chosen to contain every escaping hazard are stored in each text-bearing property in each form and sent through JSON (package functions and methods), gob and the NaturalLanguageValues method pair; bytes must come back identical and map tags preserved.",
    "Alphabet finite; valid UTF-8 only.",
    "DESIGN.md §3 C06")

chk("C02", "enum",
    "bounded-exhaustive enumeration of values and hostile strings at every string-bearing position on the implementation; oracle = independent reader (encoding/json token stream) walked in parallel with the Go value by reflection",
    "Every MarshalJSON method and the package function are executed on the structural universe and on every string-bearing position x 19 hostile strings (alone, prefixed, in ordered pairs) at three nesting positions; the output must be one valid JSON value without duplicate members, with only declared terms, every populated field under its own term in the prescribed JSON kind, and every string decoding to the bytes held.",
    "Reading D2; hostile alphabet finite; JSON-LD keywords not judged.",
    "DESIGN.md §3 C02")

chk("C05", "enum",
    "bounded-exhaustive enumeration of documents generated from the vocabulary model by an independent writer (reflection + encoding/json, two shape variants) and of all single mutations of the mock documents; oracle = canon of the generating value / reference decoder over encoding/json; then fixpoint of re-encoding",
    "Every value of the universe is written as a document in a compact and an expanded admissible shape and decoded by the library; the decoded value must have the named Go type and the expected canonical tree; re-encoding and decoding again must reproduce the value and the bytes. The 18 item mock documents and every single structure-preserving mutation are judged by a reference decoder.",
    "Writer and reference decoder share the vocabulary model and are cross-validated on every generated document; alphabet finite.",
    "DESIGN.md §3 C05")

chk("C04", "bytes",
    "deviation-bounded exhaustive exploration of decoder inputs (all strings of length <= 1/2, every truncation and every single token/byte deviation of every seed) on the implementation in crash-isolated worker processes",
    "All 73 decode entry points are driven with every byte string of length <= 1 (thorough 2), and with every JSON/gob seed, each of its prefixes and each single-token (JSON) or single-byte (gob) deviation; a panic, a fatal crash of the worker, a hang (30 s watchdog per decode) or an allocation blow-up is a violation, and so is a panic in the follow-up operations on any returned value.",
    "Reading D10; inputs are bounded deviations from well-formed seeds, not all byte strings; coverage-guided search is a different family and is not used.",
    "DESIGN.md §3 C04", category="fault_enumeration")
chk("C08", "sites+enum",
    "exhaustive enumeration of all pointer-reinterpreting conversion sites x target fields (layout invariant after an offline type check) plus complete helper x source x form matrix executed under the runtime pointer checker",
    "Static: every (*T)(unsafe.Pointer(x)) site of the current tree x every field of T must have the same name/term/type/offset in the source and T must not be larger; dynamic: every To*/On* helper x 14 source structs x pointer/value on saturated sources: shared properties read identically, writes through views of pointers propagate both ways, refusals return an error and no view; workers are built with -d=checkptr.",
    "gc/amd64 layout model cross-checked with reflect; one open known finding (CollectionPage -> OrderedCollectionPage) is masked at its two keys.",
    "DESIGN.md §3 C08")

chk("C12", "sched+enum+race",
    "stateless preemption-bounded DFS over goroutine interleavings of the real (instrumented) code under a cooperative scheduler; plus exhaustive sequential non-interference enumeration with deep snapshots; plus a free-running race-detector pass as side condition",
    "Every schedule with <= 2 preemptions (3-thread scenarios: <= 1 quick, <= 2 thorough; S1-S3 <= 3 thorough) of 8 scenarios over the yield points of an instrumented copy of the library generated from the current tree; each execution compared with the sequential results and the deep snapshot of the shared values and all package-level variables; every read-only operation x every universe value with deep snapshots before/after and result stability; the same scenario bodies under -race.",
    "Yield points at function-entry/loop granularity of the library only (third-party code not instrumented); the race pass is a dynamic monitor, not exhaustive; scenario values are small so that the schedule space closes.",
    "DESIGN.md §3 C12")

# axes added after the second and third round of independently produced changes (DESIGN.md §8.6)
EXTRA = {
 "C01": "Scale axis: boundary-length strings (a 2/3/4-byte rune, quote or LF at every offset B-4..B+1, B in 64..4096) in 11 string positions, lists of 17/33/65 members, integers above 2^53, 7-decimal floats, instants at/before the epoch; empty-but-non-nil neighbours; one identity in every pair of item properties; every decode is followed by two unrelated decodes before the comparison.",
 "C02": "Also boundary-length strings in 11 string positions and empty-but-non-nil neighbours next to every property.",
 "C03": "Same scale, empty-neighbour and shared-identity axes as C01.",
 "C04": "Seeds include term+termMap together, long and short IRIs mixed with repeats, one identity in all addressing lists, lists of 17/33/65 entries.",
 "C05": "Boundary-length strings, shared identities; the decoded value is looked at only after two unrelated decodes and re-examined at the end of the case (decoded-value stability).",
 "C06": "Every token at every offset B-4..B+1 for B in 16..4096 (multi-byte/quote/backslash also at 8192 and 65536); JSON decodes are followed by two unrelated decodes before the comparison.",
 "C08": "Dynamic containment (a view that aliases the value is never a larger struct) and ordered pairs of helpers on application-defined twin types of the 14 structs.",
 "C09": "Lists of 8..130 members for reflexivity; long-list, tag-only and extra-entry property changes.",
 "C10": "To-lists of 15..129 distinct addressees with one repeat (end / index 1 / cc / bcc); thorough also k <= 5 over 6 presentations.",
 "C11": "Chains of depth 4..70 along every walked property; lists of 17/33/65 carriers with 40/70 private recipients and repeated identities.",
 "C12": "Scenario S9 (texts >= 256 bytes); yield points also around every pooling/locking/atomic call; workers run with GOMAXPROCS=1 so that sync.Pool is deterministic.",
 "C13": "Far states: every kind grown to 7..129 members in three ways, then every continuation of depth <= 2.",
 "C14": "Query grid (every sequence of <= 4 parameters over three pairs), scale grid (paths ending 64/300/1100 bytes in, queries of 17/33 parameters), membership in lists of 2..65 members.",
 "C15": "Owners with segments of 50/300/1100 bytes and 17/33 segments.",
 "C16": "Addressing lists of 8..65 members; the same identities in every ordered pair of addressing lists.",
 "C17": "Instants 1969, the epoch and 2300; every object struct (pointer and value) with all other instant properties set to a decoy.",
 "C18": "Up to 5 further value pairs per property (objectified / permuted / shrunk items, tag-only and last-byte text changes, epoch instants); thorough adds property triples x 64 combinations.",
 "C19": "Every history also with texts passed as shared slices (aliasing mode); far states of 7..130 distinct tags x continuations of depth <= 2; near-miss equality variants on 7..130-entry lists; thorough depth 6.",
 "C20": "Two further positions: several times inside a 70-member list and inside the long lists of a collection.",
}
# presentation axes added after the fourth round (DESIGN.md §8.9)
EXTRA2 = {
 "C01": "Presentation axes: IRI forms (IPv6 literals, default ports, userinfo, non-ASCII, upper-case scheme, empty fragment/query, percent-encoding) in every IRI-bearing position; generic type names; list forms (pointer lists, lists of one, windows of one backing array); language tags with subtags, untagged+tagged lists.",
 "C02": "27 hostile strings (ill-formed UTF-8 of every kind, format characters), also as the only member of a list in single-item and list properties; IRI forms and list forms.",
 "C03": "IRI forms, generic type names and list forms as in C01.",
 "C04": "Language-map keys with subtags and malformed tags; codec chains (re-decode what the library writes for a decoded value, both codecs).",
 "C05": "Every level-1 / saturated document in six further legal presentations (white space, \\uXXXX escapes everywhere, reversed member order, null members, @context, zone offsets with fractions); IRI forms; generic type names.",
 "C06": "42 tokens (format and bidi characters in texts of length <= 2 and at every boundary offset); forms with one untagged and one tagged entry.",
 "C07": "13 channels: also escaped spellings of every string, and arrays in which a non-vocabulary member precedes or surrounds the value.",
 "C09": "Ids differing only inside an IPv6 literal / port / query value; sub-second instant changes.",
 "C11": "Pointer-to-list form of single-item positions; list properties as windows of one shared backing array.",
 "C12": "Leaf-type methods (every niladic marshaler/String/observer of language lists, entries, texts, tags, IRIs, media types, nested structs) as read-only operations.",
 "C13": "A pool whose ids differ only inside the authority or a query value.",
 "C14": "Host grid: IPv6 literals (address, case, port), explicit default ports, dot segments, query values ending in a slash.",
 "C15": "Owners with explicit default ports and IPv6 literal hosts.",
 "C16": "Plain IRIs in other spellings (as:Public, IPv6) among the entries.",
 "C17": "Equal deciding instants with different ids and types.",
 "C18": "An accepted merge (equivalent but differently spelled ids) leaves to with exactly from's id and type.",
 "C20": "Positions: only member of a list, only member of every list property.",
}
# families added after the fifth (adversarial) round (DESIGN.md §8.11)
EXTRA3 = {
 "C01": "Every vocabulary type name of every struct (level 1 and pairs of instant/duration properties); an IRI property related to the value's own id; chains of 5..130 embedded objects; list members colliding under common 32-bit hashes; zone offsets that are not whole hours.",
 "C02": "Number edges (NaN, infinities, -0, extreme floats, sub-second / extreme durations, MinInt64) in every numeric and duration property; language lists with repeated tags; every format / bidi / non-character code point singly; a hostile string nine levels deep in a list.",
 "C03": "The C01 families of round 5 (type names, related identities, deep chains, colliding ids) and language lists JSON cannot carry (repeated tags, ill-formed bytes, explicit und).",
 "C04": "Lexical space of the scalar properties: every string of length <= 3 over -+PT1.SZ:e as the value of every instant / duration / number / boolean property; lists of two members with the same id and asymmetric nested members.",
 "C05": "The C01 families of round 5.",
 "C06": "Both codecs on one instance (JSON first, then gob).",
 "C07": "Chains of depth 10 and 70 (JSON and gob); a document whose id is <partOf>?page=2.",
 "C08": "Field types must be identical (two interface types with one method set are not); snapshot before/after making a view; members in oldest-first order; a callback that writes and then fails.",
 "C09": "Ill-formed texts that differ; a changed name inside a member of lists of 3..120 objects.",
 "C10": "Pairs of different addressees that are easy to confuse (U+0130 vs i, IPv6 literals, query values, ids colliding under 32-bit hashes); Block whose object is an embedded collection.",
 "C11": "A second walked position naming the carrier's identity; hosts whose own bto/bcc are empty but have capacity.",
 "C12": "A changed package-level variable is counted, not judged; unusual language lists in the sequential pass.",
 "C13": "A pool whose items mention each other's ids in other properties; pools of ids colliding under 32-bit hashes.",
 "C14": "Reference by simple case folding; confusable grid (U+0130, Kelvin sign, long s, percent-encoded = and & in queries, colliding ids).",
 "C15": "More near-miss segments; pages with partOf and collections with first/current as the explicit collection.",
 "C16": "Every activity type name with an embedded object that has the actor's id.",
 "C17": "Activities of every type name without instants that embed dated items.",
 "C18": "The Public collection in the addressing lists of both sides.",
 "C19": "Byte-class texts (a tag in brackets, cut multi-byte sequences, NUL) in histories and in the equality matrix.",
 "C20": "A list holding the nil against IRI lists of every length; nil in every item field of Endpoints.",
}
# families added after the seventh round (DESIGN.md §8.13)
EXTRA4 = {
 "C01": "Every Unicode scalar value (1 112 064 code points, 128 per text) in name / content / summary; 21 spellings of string-typed properties (media types with quoted or reordered parameters, letter case, blanks, JSON-looking strings); language lists whose entries share a text.",
 "C02": "Every Unicode scalar value in text positions; the string-spelling family.",
 "C03": "Every Unicode scalar value; language lists with an empty text or a zero language after a non-empty entry, or the same text twice.",
 "C04": "Eleven edge numbers (negative, 2^26, 2^63-1, 2^64-1, 1e19, 1e308, fractions, denormal) as every number property of a saturated document.",
 "C05": "The C01 families of round 7.",
 "C06": "Every Unicode scalar value in all five positions, three forms, both codecs; the same text in both entries of a list.",
 "C08": "After a view is made 16 KiB of stack are zeroed by an unrelated call and the pointer-free part of the view is compared first (a view into a dead frame fails deterministically); static: unsafe.Pointer made from an integer value.",
 "C09": "Every pair of printable ASCII characters as one byte of the id's path / query value; every sequence of <= 4 tokens over a # :// ? / : % é as an id (reflexive, symmetric, no panic); lists whose members equal each other.",
 "C10": "Four spellings of a host root next to another addressee; every to / cc list of 5..7 entries over three addressees.",
 "C11": "All 13 node types at depth 1 and below an Object / Activity in the quick tier.",
 "C12": "Bare IRIs, IRI lists and item lists (by value and by pointer, with empty and nil members and spare capacity) as arguments of every read-only operation; S10 with a fixed-width counter and one query key.",
 "C13": "The watchdog times one history, not a sub-tree.",
 "C14": "The root in five spellings and the bare ? in the main grid; every printable ASCII character as a byte of the path and as a query value; paths that differ in their last byte after multi-byte characters, with a fragment.",
 "C16": "Every list of 4..7 entries over three addressees in four presentations; ids that differ only before a fragment after multi-byte characters or in a character a bit-trick fold identifies.",
 "C18": "to-lists with spare capacity (shorter and longer than from's, empty); thirteen pairs of ids that a shortcut takes for equivalent must be refused.",
 "C19": "Tags that agree in length and in their first eight bytes, histories of depth <= 3.",
}
# families added after the eighth round (DESIGN.md §8.14)
EXTRA5 = {
 "C01": "Lists whose members have different ids but are related otherwise (a link whose href is the other member, an object whose url is, twins but for the id of every struct type); endpoints that are embedded objects.",
 "C02": "Every item property holding a list whose members all say nothing, alone and next to an id.",
 "C03": "The related-member lists; the concrete Go type of bare lists through the package functions.",
 "C04": "Cost growth measured in allocations at two depths (decoding an array of two equal chains; both encoders and formatting of the decoded value), bound x8; values of the wrong kind inside publicKey / endpoints / source.",
 "C05": "The related-member lists.",
 "C06": "Every type that has a text property x every text property it has, with texts that look like markup, character references or escapes to any layer.",
 "C07": "Values carrying id and type and nothing else through the JSON and gob channels.",
 "C09": "Comparison cost of chains through every item property of every type, measured in allocations at depths 8 and 16 (bound x8), then depth 130.",
 "C10": "Presentations that need both stages of the IRI comparison; embedded presentations that are not copies of one another (other struct, type, scheme, an extra property).",
 "C13": "Pools of the rarer object types, intransitive activities, collections and value forms.",
 "C14": "Every path of <= 4 segments over a, b, .., ., empty (780 paths); ports at the edges of 8, 15 and 16 bits.",
 "C15": "Hosts spelled like collection names; holders whose other collection properties, endpoints, streams, url and context are all set.",
 "C16": "An id-less object that embeds items with ids; id-less links whose target is another entry's id.",
}
for pid, extra in EXTRA.items():
    checks[pid]["level_claimed"]["text"] += " " + extra
for pid, extra in EXTRA3.items():
    checks[pid]["level_claimed"]["text"] += " " + extra
for pid, extra in EXTRA2.items():
    checks[pid]["level_claimed"]["text"] += " " + extra
for pid, extra in EXTRA4.items():
    checks[pid]["level_claimed"]["text"] += " " + extra
for pid, extra in EXTRA5.items():
    checks[pid]["level_claimed"]["text"] += " " + extra

manifest = {
    "version": 1,
    "setup_cmd": "./setup.sh",
    "hooks": {
        "guard": "verif",
        "enable": "no hooks are committed in /repo: yield points and the globals shim are generated at check time from the current tree by an AST instrumenter and built with `go build -tags verif -overlay` (DESIGN.md §1.4)",
        "baseline_off_cmd": BASE,
        "source_commits": [],
        "add_only": True,
    },
    "engines": [
        {"name": "enum", "path": "internal/engine", "serves_properties": sorted(checks), "kind_free_text": "process-sharded bounded-exhaustive enumerator executing every case on the real library; crash isolation, 5x reproduction, finding keys, known-findings; value universe (internal/universe) and reflection canon (internal/canon) as shared alphabet and oracle"},
        {"name": "hist", "path": "checks/c10.go checks/c13.go checks/c19.go", "serves_properties": ["C10", "C13", "C19"], "kind_free_text": "explicit-state exploration of operation histories, every history replayed on a fresh real object in lock-step with a reference model"},
        {"name": "sched", "path": "checks/c12_sched.go internal/instr internal/scen internal/snap", "serves_properties": ["C12"], "kind_free_text": "cooperative scheduler + iterative preemption-bounded DFS over yield points of an AST-instrumented copy of the library (go build -overlay), deep snapshots, race-detector side pass (cmd/verif-race)"},
        {"name": "sites", "path": "internal/sites", "serves_properties": ["C08"], "kind_free_text": "offline go/types check of /repo and enumeration of all unsafe pointer conversion sites x fields"},
        {"name": "bytes", "path": "checks/c04.go", "serves_properties": ["C04"], "kind_free_text": "deviation-bounded exploration of decoder inputs (truncations, token/byte deviations) in crash-isolated workers"},
    ],
    "checks": [checks[k] for k in sorted(checks)],
    "notes": "All checks rebuild against /repo's working tree (go.mod replace => /repo). VERIF_SEED is recorded and ignored: enumerations are deterministic and exhaustive within the stated bounds.",
    "not_applicable": [
        {"property_id": p, "reason": "check under construction in this session (engine exists, property-specific alphabet/oracle not committed yet); will be claimed once its check is registered"}
        for p in ["C%02d" % i for i in range(1, 21)] if p not in checks
    ],
}
json.dump(manifest, open("MANIFEST.json", "w"), indent=1)
print("checks:", sorted(checks))
