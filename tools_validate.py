#!/usr/bin/env python3
# validates MANIFEST.json and evidence/*.json against the schemas in /root/.vp
import json, sys, glob
import jsonschema
ms = json.load(open('/root/.vp/MANIFEST.schema.json'))
es = json.load(open('/root/.vp/EVIDENCE.schema.json'))
ok = True
try:
    jsonschema.validate(json.load(open('MANIFEST.json')), ms)
    print('MANIFEST.json ok')
except Exception as e:
    ok = False; print('MANIFEST.json INVALID:', str(e)[:500])
for f in sorted(glob.glob('evidence/*.json')):
    try:
        jsonschema.validate(json.load(open(f)), es); print(f, 'ok')
    except Exception as e:
        ok = False; print(f, 'INVALID:', str(e)[:500])
sys.exit(0 if ok else 1)
