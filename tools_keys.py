#!/usr/bin/env python3
# summarises the finding keys of the last run of a check: tools_keys.py C01
import json,glob,collections,sys
cid=sys.argv[1]
ks=[json.load(open(f)) for f in glob.glob(f'replays/{cid}/*.json')]
g=collections.defaultdict(list)
for r in ks:
    p=r['key'].split('|')
    g[tuple(p[3:])].append((p[2],r))
for k,v in sorted(g.items()):
    print(k, len(v), sorted(set(x[0] for x in v))[:14])
    if '-v' in sys.argv: print('     ', v[0][1]['case'][:200],'\n     ', v[0][1]['detail'][:500].replace('\n',' ⏎ '))
