// verif-check runs one property check: verif-check <Cxx> [--tier quick|thorough] [--replay file]
package main

import (
	_ "verif/checks"
	"verif/internal/engine"
)

func main() { engine.Main() }
