// verif-instr <repo dir> <out dir>: writes the instrumented copy of the library and its overlay.json (see internal/instr).
package main

import (
	"fmt"
	"os"

	"verif/internal/instr"
)

func main() {
	if len(os.Args) != 3 {
		fmt.Fprintln(os.Stderr, "usage: verif-instr <repo dir> <out dir>")
		os.Exit(2)
	}
	res, err := instr.Instrument(os.Args[1], os.Args[2])
	if err != nil {
		fmt.Fprintln(os.Stderr, err)
		os.Exit(1)
	}
	fmt.Printf("files=%d points=%d globals=%d overlay=%s\n", res.Files, len(res.Points), len(res.Globals), res.Overlay)
}
