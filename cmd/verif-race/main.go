// verif-race is the free-running side-condition of C12: the same scenario bodies as the schedule explorer, run by real
// goroutines without any scheduler, in a binary built with -race. A cooperative scheduler's hand-offs are happens-before
// edges that blind the race detector, so this pass has to be separate.
package main

import (
	"fmt"
	"os"
	"sync"

	"verif/internal/scen"
)

func main() {
	// usage: verif-race [quick|thorough]
	goroutines, rounds, outer := 32, 40, 3
	if len(os.Args) > 1 && os.Args[1] == "quick" {
		goroutines, rounds, outer = 16, 25, 1
	}
	ops := 0
	for round := 0; round < outer; round++ {
		scs := scen.Scenarios()
		// S10 spells its identities differently in every instance: whatever the library remembers per IRI or per query is filled
		// in concurrently only ONCE per instance, in the first microseconds. Many fresh instances with few rounds each give the
		// detector many such first moments (one instance catches an unsynchronised first-time write only now and then).
		extra := 60
		if goroutines > 16 {
			extra = 200
		}
		for i := 0; i < extra; i++ {
			scs = append(scs, scen.Get(10))
		}
		for si, sc := range scs {
			rounds := rounds
			if si >= scen.Count {
				rounds = 3
			}
			// the goroutines run FIRST (on values nobody has touched: lazily filled tables and caches are filled concurrently);
			// the sequential reference is computed afterwards on a fresh instance, and the recorded results are compared with it
			var want []string
			var wg sync.WaitGroup
			var mu sync.Mutex
			got := make([]map[string]int, len(sc.Threads)) // per thread: distinct results seen
			for k := range got {
				got[k] = map[string]int{}
			}
			// all goroutines are released together: started one after the other, the first would be done with its first call
			// (microseconds) before the last exists, and nothing would ever run a first-time path concurrently
			start := make(chan struct{})
			for g := 0; g < goroutines; g++ {
				wg.Add(1)
				go func(g int) {
					defer wg.Done()
					k := g % len(sc.Threads)
					local := map[string]int{}
					<-start
					for r := 0; r < rounds; r++ {
						local[sc.Threads[k].Run()]++
					}
					mu.Lock()
					for res, n := range local {
						got[k][res] += n
					}
					mu.Unlock()
				}(g)
			}
			close(start)
			wg.Wait()
			// sequential reference on a fresh instance of the same scenario
			for ri := 0; ri < scen.Count; ri++ {
				if r := scen.Get(ri); r.Name == sc.Name {
					for _, op := range r.Threads {
						want = append(want, op.Run())
					}
				}
			}
			bad := ""
			for k := range got {
				for res := range got[k] {
					if res != want[k] {
						bad = fmt.Sprintf("scenario %q thread %s: concurrent result differs from the sequential one\n got: %.300s\nwant: %.300s", sc.Name, sc.Threads[k].Name, res, want[k])
					}
				}
			}
			ops += goroutines * rounds
			if bad != "" {
				fmt.Println("RESULT-MISMATCH " + bad)
				os.Exit(3)
			}
		}
	}
	fmt.Printf("RACEPASS ok scenarios=%d operations=%d goroutines=%d\n", len(scen.Scenarios()), ops, goroutines)
}
