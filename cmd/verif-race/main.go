// verif-race is the free-running side-condition of C12: the same scenario bodies as the schedule explorer, run by real
// goroutines without any scheduler, in a binary built with -race. A cooperative scheduler's hand-offs are happens-before
// edges that blind the race detector, so this pass has to be separate.
package main

import (
	"fmt"
	"os"
	"sync"

	"verif/internal/scen"
)

func main() {
	// usage: verif-race [quick|thorough]
	goroutines, rounds, outer := 32, 40, 3
	if len(os.Args) > 1 && os.Args[1] == "quick" {
		goroutines, rounds, outer = 16, 25, 1
	}
	ops := 0
	for round := 0; round < outer; round++ {
		for _, sc := range scen.Scenarios() {
			// sequential reference on a fresh instance
			ref := scen.Scenarios()
			var want []string
			for _, r := range ref {
				if r.Name == sc.Name {
					for _, op := range r.Threads {
						want = append(want, op.Run())
					}
				}
			}
			var wg sync.WaitGroup
			var mu sync.Mutex
			bad := ""
			for g := 0; g < goroutines; g++ {
				wg.Add(1)
				go func(g int) {
					defer wg.Done()
					k := g % len(sc.Threads)
					for r := 0; r < rounds; r++ {
						if got := sc.Threads[k].Run(); got != want[k] {
							mu.Lock()
							bad = fmt.Sprintf("scenario %q thread %s: concurrent result differs from the sequential one\n got: %.300s\nwant: %.300s", sc.Name, sc.Threads[k].Name, got, want[k])
							mu.Unlock()
						}
					}
				}(g)
			}
			wg.Wait()
			ops += goroutines * rounds
			if bad != "" {
				fmt.Println("RESULT-MISMATCH " + bad)
				os.Exit(3)
			}
		}
	}
	fmt.Printf("RACEPASS ok scenarios=%d operations=%d goroutines=%d\n", len(scen.Scenarios()), ops, goroutines)
}
